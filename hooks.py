"""Native test doubles for DEPENDENCY code: at replay time the sources of a few dependency
functions (Factom client Get methods, the graders' constructors) are overlaid with copies
that first consult a hook variable. The repo's own code is never patched. The hooks are set
by vrt.Stub natively; under the symbolic engine vrt.Stub registers the same harness function
as the callee's replacement."""
import os, re, subprocess

ENV = dict(os.environ, GOFLAGS="-mod=mod", GOPROXY="off", GOSUMDB="off", GOTOOLCHAIN="local")


def module_dir(repo, mod):
    r = subprocess.run(["go", "list", "-m", "-f", "{{.Dir}}", mod], cwd=repo, env=ENV, text=True, capture_output=True)
    d = r.stdout.strip()
    if not d:
        raise RuntimeError("cannot locate module %s: %s" % (mod, r.stderr))
    return d


GET_RE = re.compile(r"^func \((\w+) \*(\w+)\) Get\(ctx context\.Context, c \*Client\) (\(err error\)|error) \{$", re.M)


def patch_factom(src_dir, out_dir):
    rep = {}
    for fn in ["dblock.go", "eblock.go", "entry.go", "fblock.go", "heights.go", "transaction.go"]:
        p = os.path.join(src_dir, fn)
        s = open(p).read()
        decls = []

        def sub(m):
            recv, typ = m.group(1), m.group(2)
            decls.append("var VerifHook%sGet func(*%s, context.Context, *Client) error" % (typ, typ))
            return m.group(0) + "\n\tif VerifHook%sGet != nil {\n\t\treturn VerifHook%sGet(%s, ctx, c)\n\t}" % (typ, typ, recv)
        s2, n = GET_RE.subn(sub, s)
        if n == 0:
            raise RuntimeError("hook point not found in " + p)
        s2 += "\n// --- verification hooks (native replays only) ---\n" + "\n".join(decls) + "\n"
        q = os.path.join(out_dir, "factom_" + fn)
        open(q, "w").write(s2)
        rep[p] = q
    return rep


def patch_grader(src_dir, out_dir, pkg, sig, call):
    p = os.path.join(src_dir, "base.go")
    s = open(p).read()
    head = "func NewGrader(%s) (BlockGrader, error) {" % sig
    if head not in s:
        raise RuntimeError("NewGrader signature not found in " + p)
    s2 = s.replace(head, head + "\n\tif VerifHookNewGrader != nil {\n\t\treturn VerifHookNewGrader(%s)\n\t}" % call)
    s2 += "\n// --- verification hook (native replays only) ---\nvar VerifHookNewGrader func(%s) (BlockGrader, error)\n" % sig
    q = os.path.join(out_dir, pkg + "_base.go")
    open(q, "w").write(s2)
    return {p: q}


def dependency_overlay(repo, out_dir):
    os.makedirs(out_dir, exist_ok=True)
    rep = {}
    fdir = module_dir(repo, "github.com/Factom-Asset-Tokens/factom")
    rep.update(patch_factom(fdir, out_dir))
    pdir = module_dir(repo, "github.com/pegnet/pegnet")
    rep.update(patch_grader(os.path.join(pdir, "modules", "grader"), out_dir, "grader",
                            "version uint8, height int32, previousWinners []string", "version, height, previousWinners"))
    rep.update(patch_grader(os.path.join(pdir, "modules", "graderStake"), out_dir, "graderStake",
                            "version uint8, height int32", "version, height"))
    rep.update(startup_overlay(repo, out_dir))
    return rep


# ---- the daemon's own start-up code, made callable on a harness database ------------------------
# NewPegnetd opens the SQLite file, builds the Factom client and initialises the LXR hash table
# (1 GiB) around the part that matters for restart properties: what a starting daemon reads from
# its database and keeps in memory. The function below is REGENERATED FROM /repo's CURRENT
# node/node.go on every run: NewPegnetd's body is copied into vrtStartDaemon with exactly three
# statements exchanged - the Init() call (open file + createTables) becomes "use this *sql.DB +
# createTables", the Factom client and grader.InitLX() are dropped. Everything else - SelectSynced,
# CheckHardForks, whatever a change adds to the start-up path - runs as written.
START_FALLBACK = '''package node

import (
	"context"
	"database/sql"

	"github.com/pegnet/pegnetd/node/pegnet"
	"github.com/spf13/viper"
)

// extraction of NewPegnetd failed (%s): the restart harnesses fall back to reloading the sync
// height only, and do not cover the class "real-start-up-code"
const vrtStartExtracted = false

func vrtStartDaemon(ctx context.Context, conf *viper.Viper, vrtDB *sql.DB) (*Pegnetd, error) {
	n := new(Pegnetd)
	n.Config = conf
	n.Pegnet = &pegnet.Pegnet{DB: vrtDB}
	if err := n.Pegnet.VrtCreateTables(); err != nil {
		return nil, err
	}
	s, err := n.Pegnet.SelectSynced(ctx, vrtDB)
	if err != nil {
		return nil, err
	}
	n.Sync = s
	return n, nil
}
'''


def startup_overlay(repo, out_dir):
    os.makedirs(out_dir, exist_ok=True)
    q = os.path.join(out_dir, "node_zz_verif_start_gen.go")
    target = os.path.join(repo, "node", "zz_verif_start_gen.go")

    def fallback(reason):
        open(q, "w").write(START_FALLBACK % reason)
        return {target: q}
    try:
        src = open(os.path.join(repo, "node", "node.go")).read()
    except OSError as e:
        return fallback("node/node.go unreadable: %s" % e)
    m = re.search(r"^func NewPegnetd\(ctx context\.Context, conf \*viper\.Viper\) \(\*Pegnetd, error\) \{\n(.*?)^\}\n", src, re.M | re.S)
    if not m:
        return fallback("NewPegnetd(ctx, conf) not found")
    body = m.group(1)
    body, n1 = re.subn(r"if err := n\.Pegnet\.Init\(\); err != nil \{\s*return nil, err\s*\}",
                       "n.Pegnet.DB = vrtDB\n\tif err := n.Pegnet.VrtCreateTables(); err != nil {\n\t\treturn nil, err\n\t}", body)
    if n1 != 1:
        return fallback("the Init() call of NewPegnetd not found exactly once")
    body = re.sub(r"^\s*n\.FactomClient = FactomClientFromConfig\(conf\)\s*$", "", body, flags=re.M)
    body = re.sub(r"^\s*grader\.InitLX\(\)\s*$", "", body, flags=re.M)
    if "InitLX" in body or "FactomClientFromConfig" in body or "sql.Open" in body:
        return fallback("start-up code opens resources in a way the extraction does not know")
    # the import block of node.go, reduced to what the copied body still uses
    im = re.search(r"^import \((.*?)^\)", src, re.M | re.S)
    if not im:
        return fallback("import block not found")
    imports = []
    for line in im.group(1).splitlines():
        line = line.strip()
        if not line or line.startswith("//"):
            continue
        mm = re.match(r'^(?:(\w+|_)\s+)?"([^"]+)"$', line)
        if not mm:
            return fallback("unparsed import line %r" % line)
        alias, path = mm.group(1), mm.group(2)
        if alias == "_":
            continue
        name = alias or path.rsplit("/", 1)[-1]
        if re.search(r"\b%s\." % re.escape(name), body) or name in ("context", "sql", "viper"):
            imports.append(line)
    for need in ('"context"', '"database/sql"', '"github.com/spf13/viper"'):
        if not any(need in l for l in imports):
            imports.append(need)
    out = "package node\n\n// GENERATED on every run from the current node/node.go (see /verif/hooks.py)\n\nimport (\n"
    out += "".join("\t%s\n" % l for l in imports) + ")\n\nconst vrtStartExtracted = true\n\n"
    out += "func vrtStartDaemon(ctx context.Context, conf *viper.Viper, vrtDB *sql.DB) (*Pegnetd, error) {\n" + body + "}\n"
    open(q, "w").write(out)
    return {target: q}
