"""Native test doubles for DEPENDENCY code: at replay time the sources of a few dependency
functions (Factom client Get methods, the graders' constructors) are overlaid with copies
that first consult a hook variable. The repo's own code is never patched. The hooks are set
by vrt.Stub natively; under the symbolic engine vrt.Stub registers the same harness function
as the callee's replacement."""
import os, re, subprocess

ENV = dict(os.environ, GOFLAGS="-mod=mod", GOPROXY="off", GOSUMDB="off", GOTOOLCHAIN="local")


def module_dir(repo, mod):
    r = subprocess.run(["go", "list", "-m", "-f", "{{.Dir}}", mod], cwd=repo, env=ENV, text=True, capture_output=True)
    d = r.stdout.strip()
    if not d:
        raise RuntimeError("cannot locate module %s: %s" % (mod, r.stderr))
    return d


GET_RE = re.compile(r"^func \((\w+) \*(\w+)\) Get\(ctx context\.Context, c \*Client\) (\(err error\)|error) \{$", re.M)


def patch_factom(src_dir, out_dir):
    rep = {}
    for fn in ["dblock.go", "eblock.go", "entry.go", "fblock.go", "heights.go", "transaction.go"]:
        p = os.path.join(src_dir, fn)
        s = open(p).read()
        decls = []

        def sub(m):
            recv, typ = m.group(1), m.group(2)
            decls.append("var VerifHook%sGet func(*%s, context.Context, *Client) error" % (typ, typ))
            return m.group(0) + "\n\tif VerifHook%sGet != nil {\n\t\treturn VerifHook%sGet(%s, ctx, c)\n\t}" % (typ, typ, recv)
        s2, n = GET_RE.subn(sub, s)
        if n == 0:
            raise RuntimeError("hook point not found in " + p)
        s2 += "\n// --- verification hooks (native replays only) ---\n" + "\n".join(decls) + "\n"
        q = os.path.join(out_dir, "factom_" + fn)
        open(q, "w").write(s2)
        rep[p] = q
    return rep


def patch_grader(src_dir, out_dir, pkg, sig, call):
    p = os.path.join(src_dir, "base.go")
    s = open(p).read()
    head = "func NewGrader(%s) (BlockGrader, error) {" % sig
    if head not in s:
        raise RuntimeError("NewGrader signature not found in " + p)
    s2 = s.replace(head, head + "\n\tif VerifHookNewGrader != nil {\n\t\treturn VerifHookNewGrader(%s)\n\t}" % call)
    s2 += "\n// --- verification hook (native replays only) ---\nvar VerifHookNewGrader func(%s) (BlockGrader, error)\n" % sig
    q = os.path.join(out_dir, pkg + "_base.go")
    open(q, "w").write(s2)
    return {p: q}


def dependency_overlay(repo, out_dir):
    os.makedirs(out_dir, exist_ok=True)
    rep = {}
    fdir = module_dir(repo, "github.com/Factom-Asset-Tokens/factom")
    rep.update(patch_factom(fdir, out_dir))
    pdir = module_dir(repo, "github.com/pegnet/pegnet")
    rep.update(patch_grader(os.path.join(pdir, "modules", "grader"), out_dir, "grader",
                            "version uint8, height int32, previousWinners []string", "version, height, previousWinners"))
    rep.update(patch_grader(os.path.join(pdir, "modules", "graderStake"), out_dir, "graderStake",
                            "version uint8, height int32", "version, height"))
    return rep
