# Per-property manifest texts. NOT_APPLICABLE holds properties not claimed (with reason).
PENDING = "check not built yet in this session (work in progress; see DESIGN.md §10 build order)"

META = {
    "C07": {
        "text": "Bounded symbolic model checking of the real conversions.Convert (SSA -> SMT, NIA over mathematical integers for math/big): for ALL int64 amounts, uint64 rates/averages and uint32 heights the solver shows result = floor(amount*S/D) with the PIP-10 min/max rule, errors exactly when specified, value non-increase. No loop, so no unwinding bound.",
        "note": "math/big modelled as mathematical Int (q,r division form); z3 5.1 verdicts; spec constants (PIP10 height) copied into the harness; witnesses replayed on the real build each run",
        "design_ref": "DESIGN.md §7 C07",
    },
}

META["C03"] = {
    "text": "Bounded symbolic model checking of the real applyTransactionBatch/recordBatch and the SQL layer under them (AddToBalance, SubFromBalance, SelectPendingBalance(s), history updates) from an ARBITRARY ledger pre-state: the solver shows that every accepted batch is funded at each step in sequential order, has exactly the reference effects on every row, that rejected/dropped batches leave every table unchanged, and that no balance is negative even with the column CHECK constraints switched off. One inductive step from an arbitrary state covers histories of any length.",
    "note": "bounds: 1..3 transactions, <=2 outputs, asset pools of 2-5 tickers, balances/totals < 2^62; fat103 signature check not in this unit; SQL semantics = relational store model validated against real SQLite by per-run native replays; block-failing errors are handed to C08",
    "design_ref": "DESIGN.md §7 C03",
}
META["C04"] = {
    "text": "Same symbolic runs as C03 with the conservation oracle: per asset, SUM over all rows changes by exactly the event's amount (transfer 0, burn-address output -amount from 2.0.2, conversion -in/+floor(in*S/D)), every transfer output is credited to its named recipient, a bystander row is untouched, and balances are only written by the block transaction. Known finding D18 (zero-address sink before 2.0.2) is reported as KNOWN-FINDING.",
    "note": "as C03; held conversions and PEG requests are covered by the holding harness; issuance units (coinbase, staking, developer, mint, nullify, FCT burns) by C11/C14/C15's harnesses",
    "design_ref": "DESIGN.md §7 C04",
}

META["C19"] = {
    "text": "Bounded symbolic model checking of the real CheckHardForks and its SQL (LowestSynced/HighestSynced, FetchMin/MaxSyncedVersion, back-fill inserts, SelectSynced) over databases built through the real InsertSynced + commit: the solver decides 'refused <=> some block at/above a fork was synced by too old (or untracked) a build, or by a newer build than the one starting' for every assignment of per-height build versions, fork heights, fork minimum versions and current version within the bounds, including legacy prefixes and intermediate restarts. The same histories are also run with every start of a build going through NewPegnetd's own body (regenerated from the current source), intermediate starts with or without --no-hf, the final one regular: refused <=> bad history.",
    "note": "miniature chain (S<=5 quick, <=7 thorough; through the start-up path S<=3 / <=5), 2 symbolic forks; json round trip of the sync record stubbed; shipped mainnet table not instantiated; D14 found by this check and repaired (fix: e5e114c)",
    "design_ref": "DESIGN.md §7 C19",
}

META["C16"] = {
    "text": "Bounded symbolic model checking of the real ConversionSupplySet (AddConversion, Payouts, PayoutBig, dust rule with SortTxIDS) for every bank and request amount in uint64: total paid <= bank and == bank when requests exceed it, full fill when they fit, each payout >= its proportional floor share, dust < request count and only to a largest request; payout <= request holds except for the recorded dust finding D9.",
    "note": "1..3 requests quick, ..4 thorough; math/big as Int (NIA, z3 5.1); refund/bank-table glue (recordPegnetRequests, SyncBank, bank ledger rows) asserted in the holding harness (single held conversions) and in the peg-batch harness (one held batch of 2-3 PEG requests at rates 1:1: per-request share, dust, refund from the request's own input, recorded amounts)",
    "design_ref": "DESIGN.md §7 C16",
}

META["C13"] = {
    "text": "Bounded symbolic model checking of the real applyTransactionBatch for single conversions over the asset matrix: for EVERY height >= the tx activation, amount, balance, rate and average value the solver shows executed <=> admit(height, src, dst, rates, averages) written from the specification table (one-way pFCT, small caps and PEG, zero rates, unavailable averages under PIP-10, overflow), the documented reject code, and that non-executed conversions leave every table unchanged.",
    "note": "quick: 3x62 + 62x3 pairs (conversion alone or after a transfer in its batch), thorough: additionally the full 62x62 matrix for the single-transaction batch; 'average unavailable' itself is decided on the real GetPegNetRateAverages against an absolute reference (reduced period 4); spec constants copied into the harness; the from-2.0 PEG-destination rule is asserted in the holding harness (C05/C06 family)",
    "design_ref": "DESIGN.md §7 C13",
}

META["C01"] = {
    "text": "Bounded symbolic model checking with an ORDER ORACLE: the real ConversionSupplySet.Payouts and the real SnapshotPayouts (SQL included) are executed twice from the same symbolic pre-state, once in canonical order and once with any permutation of a map iteration / any legal result of an unstable sort (solver-chosen), and the solver shows equal balances, payouts and history rows (address -> tx_index) for all balances including exact ties. Found D3 (staking tie order), repaired by fix 703a3f1.",
    "note": "deviation budget: one permuted map range or unstable sort per run; 2 requests/2 stakers quick, 3 requests/2 stakers thorough; clock: time.Now() is a fresh symbolic value per call; the sync-loop scenarios (developer payout, mint, burn-address zeroings) are replayed by two independent daemons and their ledgers compared; multiFetch goroutines and grader-internal ties not encoded (not-applicable sub-claims, DESIGN §9)",
    "design_ref": "DESIGN.md §7 C01",
}
META["C14"] = {
    "text": "Bounded symbolic model checking of the real SnapshotPayouts, SnapshotCurrent, SelectSnapshotBalances (the two-table MIN join, parsed from the repo's SQL), Convert, ConversionSupplySet, InsertStakingCoinbase and AddToBalance from symbolic snapshot tables: stake = sum of floor(min(past,cur)*rate/rateUSD) over non-PEG assets (zero rates skipped from 2.0.2), payouts proportional with dust < n, total <= 4500 PEG x 144 and == it when stake exceeds it, full payout below the cap, nothing for addresses absent from either snapshot, only PEG touched, one history row per payee with the credited amount.",
    "note": "2 addresses in both snapshots + 1 only-new + 1 only-old with 1 asset (2 thorough); 3 stakers for allocation; heights: first snapshot >= 2.0 and >= 2.0.2 (heights are formatted into the mock txid, hence concrete); the when-to-snapshot glue is asserted in the SyncBlock glue harness (closed-era finding D7: an out-of-band block skips the snapshot, reported as KNOWN-FINDING)",
    "design_ref": "DESIGN.md §7 C14",
}

META["C05"] = {
    "text": "Bounded symbolic model checking of the real ApplyTransactionBlock -> NewTransactionBatch -> Validate/ValidData/ValidExtIDs -> applyTransactionBatch with the SQL layer, against an ideal-signature model of fat103.Validate: for every height, block time, salt offset, amount and balance the solver shows that an entry moves funds only if it parses, is signed by exactly the input address's key over this salt/chain/content, the salt is within +-12 h of the block time and the key type is enabled at the height; every other entry (11 defect kinds) leaves NO trace in any table.",
    "note": "ideal crypto (unforgeable, unique signatures) is an assumption; the byte-level binding of signature bytes to the entry hash (RCD-e recovery byte, DESIGN §8 D16) needs the library's byte shuffling interpreted and is not yet claimed by this check; re-validation of held batches at execution height is covered by the holding harness when present; native replays use real ed25519/secp256k1 signatures",
    "design_ref": "DESIGN.md §7 C05",
}
META["C06"] = {
    "text": "Same symbolic runs as C05 with the at-most-once oracle: a reference ledger in which each entry hash takes effect at most once is compared with the store after blocks that repeat an entry which is already executed, still pending in holding, or rejected, in an adjacent block or twice inside one block: balances, one history record per entry, relations iff executed, holding row iff pending. Found D2 (repeat of a pending/rejected entry wedges the block), repaired by fix 9252bda.",
    "note": "prior states are produced by the real code on an earlier committed block; holding-window partition (each held height visited once) is covered by the holding harness when present",
    "design_ref": "DESIGN.md §7 C06",
}
META["C08"] = {
    "text": "Bounded symbolic model checking of block-application units on arbitrary third-party content: transaction-chain blocks with malformed / unsigned / mis-signed / repeated entries (C05 harness) and snapshot payout blocks must return nil and never panic; every Go run-time failure (index, nil, divide, type assertion) is an explicit path outcome of the interpreter. D2 found and fixed; D10 (pre-2.0.2 zero-rate snapshot) reported as KNOWN-FINDING.",
    "note": "also: the holding pass on every era (a reject must never become a block error), the real Grade/GradeS over symbolic entry lists (D1 found and fixed) and the real SyncBlock at 14 heights across all eras with arbitrary grader verdicts (D10 second shape reported as KNOWN-FINDING); panics inside dependency graders/parsers are outside (DESIGN §0.5, §9)",
    "design_ref": "DESIGN.md §7 C08",
}

META["C11"] = {
    "text": "Bounded symbolic model checking of the real ApplyGradedOPRBlock / ApplyGradedSPRBlock (+ InsertCoinbase, InsertStaking100Coinbase, AddToBalance) for an ARBITRARY grader verdict: each winner's payout address receives exactly Payout() once, an unparsable address pays nothing, nobody else changes, supply grows by the sum, one coinbase history record per paid winner with the amount.",
    "note": "plus the real multiFetch under the goroutine model (a failed record request fails the block instead of handing the graders a block with a record missing) and the glue harnesses: the real Grade/GradeS (entries handed to the grader, top-holder filter) and the real SyncBlock (who is paid in which era, FCT burns credited) with grader constructors and Factom requests stubbed (natively through a dependency hook overlay); the grading decision itself is dependency code; binding of the declared staker id to the signing key (D17) is not encoded (DESIGN §0.6); closed-era finding D7 (out-of-band block committed without its effects, incl. the winners' rewards) is reported as KNOWN-FINDING",
    "design_ref": "DESIGN.md §7 C11",
}
META["C15"] = {
    "text": "Bounded symbolic model checking of the real DevelopersPayouts (+ InsertDeveloperRewardCoinbase), MintTokensForBalance and NullifyMintedTokens with symbolic prior balances: per-address developer amounts from the specified percentage table, total exactly 2000 PEG (x144 from 2.0.2), minted amounts per asset from the specified table x 1e8, remaining minted supply driven to exactly 0 for listed assets and untouched otherwise, bystanders untouched, history records written. The one-time adjustments inside the real DBlockSync (NullifyBurnAddress at 260118 and 274036, mint at 288878, burn of the mint at 294206): after the fault-free two-block run of each scenario the PEG/pUSD balances of both burn addresses, the mint address and a bystander equal the schedule, for symbolic prior balances (known finding D20: the 260118 zeroing stops after the first held asset).",
    "note": "units at the relevant concrete heights per era; the cadence (height == activation, height % 144, snapshot-before-payout) is asserted in the SyncBlock glue harness over 14 heights (closed-era finding D7: an out-of-band block skips the developer payout, reported as KNOWN-FINDING)",
    "design_ref": "DESIGN.md §7 C15",
}

META["C09"] = {
    "text": "Bounded symbolic model checking of the real GetPegNetRateAverages (both closures, numberMissing) with SelectRates / SelectMostRecentRatesBeforeHeight over a symbolic rate table: a daemon that lives through the whole chain and a daemon restarted right before ANY rated block obtain the same averages for every asset, for every rated/unrated pattern and all rate values within the bounds. Restart chain: three blocks with content (conversions held over an unrated block - no OPR/SPR entry block, or winner-less ones) through the real SyncBlock, the daemon replaced at any subset of the boundaries by a freshly started one that runs the real createTables+migrations and reloads its state from the database: identical ledgers. Found D4 (count-trimmed cache vs height-window reload), repaired by a fix: commit.",
    "note": "reduced averaging period (P=3 quick, 4 thorough; mainnet 288, code uniform in P), 6-9 heights, 2 assets (the second appearing later, or quoted from the start and then left out of the rates of 1-2 consecutive heights); the claim that no other in-memory state influences results rests on reading SyncBlock (all other inputs go through SQL)",
    "design_ref": "DESIGN.md §7 C09",
}

META["C20"] = {
    "text": "Bounded symbolic model checking of (a) the real FactoidToFactoshi with strconv.Atoi/ParseUint interpreted from their SSA over decimal strings whose every digit is a solver variable: an accepted amount equals the exact decimal value x 1e8 (as a mathematical integer), more than 8 decimals are rejected, nothing is silently altered; (c) the real UnmarshalJSON methods of Transaction, TransactionBatch and AddressAmountTuple accept exactly the objects made of their expected members, once each; (b) the real Transaction.Validate / TransactionBatch.ValidData on arbitrary decoded batches: accepted <=> version 1, >=1 transaction, one non-reserved input address, exactly one of transfers/conversion, transfers sum to the input without wrap, conversion differs from the input type. Found D13 (wrapping amount), repaired by a fix: commit.",
    "note": "0..20 integer and 0..9 fraction digits; <=2 transactions x <=2 transfers; the three regular expressions are per-pattern models; JSON: the object level of the three length-checked decoders is decided (which member sets, incl. duplicates, unknown members, empty/null transfers, are accepted: the real UnmarshalJSON methods run over an object-level document model, natively over real bytes); NOT claimed (not-applicable sub-claim): everything below the object level - whitespace, escapes, number syntax, TypedAddressAmountTuple's tagged field - and the marshal/unmarshal round trip beyond the transfer output tuple (that one is decided: encoding/json's tag-driven encoder at the object level, then the real AddressAmountTuple.UnmarshalJSON, for every amount incl. 0); ticker names: canonical spellings and near misses through the real PTicker.UnmarshalJSON",
    "design_ref": "DESIGN.md §7 C20",
}

META["C12"] = {
    "text": "Bounded symbolic model checking of (a) the real GetAssetRates / GetAssetRatesV0 in every band era: with float64 modelled EXACTLY (dyadic rationals; IEEE round-to-nearest-even applied where a product is not representable) the solver shows for all OPR/SPR rates that each recorded rate is the OPR's when 0.75*spr <= opr <= 1.25*spr and 0 otherwise, and the other winner's rates when one is absent; (b) the real InsertRates/insertRate/SelectIssuances: one row per asset named p<asset>, PEG priced 0 / floor(sum(supply*rate)/supply_PEG) / as reported by phase, a second insert for a height fails and changes nothing, pn_rate is never updated or deleted.",
    "note": "closed-era bands (GetAssetRatesV0 1 %/0.1 %, GetAssetRates 10 %): float64 products are followed with exact IEEE round-to-nearest-even (fork per binade), one symbolic asset, rates < 2^30 quick / 2^50 thorough, band-edge witnesses replayed on hardware floats every run; which phase/band SyncBlock selects per height and 'no winners => no rates' are asserted in the SyncBlock glue harness (closed-era both-winner blocks with rates in one binade window)",
    "design_ref": "DESIGN.md §7 C12",
}

META["C02"] = {
    "text": "Bounded symbolic model checking of the real DBlockSync + SyncBlock (and the scheduled routines they trigger) on the two-layer (committed/pending) store with a CRASH ORACLE: in 7 scenarios the process is killed at every DB-API call of a 2-block run; the database a new process then opens holds exactly the ledger of the uninterrupted run at its recorded sync height (every table compared), exactly one version row per height, and resuming reaches the uninterrupted ledger. Every block-application harness additionally monitors that no write bypasses the block transaction.",
    "note": "SQLite commit atomicity is the trusted contract (a kill = connections dropped without commit; natively replayed by closing the SQLite connections under the running code); blocks without tracked entries in the loop harness; NewPegnetd's resume step replicated, not executed",
    "design_ref": "DESIGN.md §7 C02",
    "technique": "bounded symbolic execution of the real Go code (go/ssa -> SMT, z3 5.1) with a crash oracle over every DB-API call; crash points replayed on real SQLite",
}
META["C10"] = {
    "text": "Same loop harness with a FAULT ORACLE: every single DB-API call of the run fails once (returns an error, no effect), or one upstream Factom request fails once; after the loop's own retry the ledger must equal the fault-free ledger. Plus unit fault harnesses for block content: the real ApplyTransactionBlock (1 entry of every kind) and the real holding pass (1 held conversion), each run with EVERY DB-API call of the unit failing once against a fault-free twin of the same symbolic scenario: the unit must fail (and its retry must reach the fault-free ledger) or end the process, or leave exactly the fault-free store. Found D5 (developer payout / mint-burn errors swallowed; four status-update results dropped; fixed) and reports D6 (result of NullifyBurnAddress discarded) as KNOWN-FINDING.",
    "note": "single transient fault per run; faults inside multiFetch's goroutines are outside; faults natively replayed through a counting wrapper around the real SQLite driver",
    "design_ref": "DESIGN.md §7 C10",
    "technique": "bounded symbolic execution of the real Go code (go/ssa -> SMT, z3 5.1) with a fault oracle over every DB-API call and upstream request; faults replayed on real SQLite",
}

META["C18"] = {
    "text": "Bounded symbolic execution of the real getGlobalRichList API handler and of the sync side's GetPegNetRateAverages call as two goroutine bodies over one *Pegnetd, with a LOCKSET analysis of every access to the shared cache (struct fields and the maps published through them) along every solver-feasible path: no two conflicting accesses from different goroutines without a common mutex; plus: the handler's answer is identical before and during an open block transaction with pending writes, and handlers never write. Found D12 (unsynchronised cache), confirmed by the Go race detector, repaired by a fix: commit.",
    "note": "two goroutines, one handler (getRichList uses the same call); read handlers with an optional height are also asked for the default height while the in-memory sync height is already bumped for an uncommitted block; schedule-independent lockset criterion instead of interleaving enumeration; Sync.Synced word read and the HTTP stack are outside",
    "design_ref": "DESIGN.md §7 C18",
    "technique": "symbolic execution of the real Go code (go/ssa -> SMT) with lockset race analysis over shared state; confirmed natively with go test -race",
}

META["C17"] = {
    "text": "Bounded symbolic model checking of (a) the history layer: rows written by the real InsertTransactionHistoryTxBatch / InsertFCTBurn / InsertDeveloperRewardCoinbase are returned by the real historyQueryBuilder + historySelectHelper + turnRowsIntoHistoryTransactions (3-table joins, IN filters, ORDER BY, LIMIT/OFFSET interpreted from the repo's SQL text) exactly: count == number of matching actions, each once, recorded fields, history order, for every query field and option combination; (b) status truthfulness inside every block-application harness: executed == height iff effects applied, negative iff rejected with no effect, pending iff held, recorded amounts == balance deltas (transfers, conversions, PEG yields, coinbases, developer and staking payouts). Found D19 (txid count query), repaired by a fix: commit.",
    "note": "paging: 53/103 recorded actions walked page by page and read at every offset (by height and by address, both orders); filter combinations on the first page only; json of the outputs column stubbed as a round trip",
    "design_ref": "DESIGN.md §7 C17",
}

NOT_APPLICABLE = {}
for i in range(1, 21):
    p = "C%02d" % i
    if p not in META:
        NOT_APPLICABLE[p] = PENDING
