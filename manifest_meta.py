# Per-property manifest texts. NOT_APPLICABLE holds properties not claimed (with reason).
PENDING = "check not built yet in this session (work in progress; see DESIGN.md §10 build order)"

META = {
    "C07": {
        "text": "Bounded symbolic model checking of the real conversions.Convert (SSA -> SMT, NIA over mathematical integers for math/big): for ALL int64 amounts, uint64 rates/averages and uint32 heights the solver shows result = floor(amount*S/D) with the PIP-10 min/max rule, errors exactly when specified, value non-increase. No loop, so no unwinding bound.",
        "note": "math/big modelled as mathematical Int (q,r division form); z3 5.1 verdicts; spec constants (PIP10 height) copied into the harness; witnesses replayed on the real build each run",
        "design_ref": "DESIGN.md §7 C07",
    },
}

NOT_APPLICABLE = {}
for i in range(1, 21):
    p = "C%02d" % i
    if p not in META:
        NOT_APPLICABLE[p] = PENDING
