package vrt

import (
	"context"
	"fmt"

	"github.com/Factom-Asset-Tokens/factom"
	"github.com/pegnet/pegnet/modules/grader"
	"github.com/pegnet/pegnet/modules/graderStake"
)

// Stub replaces a DEPENDENCY function by a harness function. Under the symbolic engine the
// interpreter runs fn instead of the callee. Natively the dependency sources are overlaid
// (by ./check, at replay time) with copies that consult hook variables, set here; the
// repository's own code is never replaced natively.
func Stub(name string, fn interface{}) {
	const f = "github.com/Factom-Asset-Tokens/factom."
	switch name {
	case "(*" + f + "Heights).Get":
		factom.VerifHookHeightsGet = fn.(func(*factom.Heights, context.Context, *factom.Client) error)
	case "(*" + f + "DBlock).Get":
		factom.VerifHookDBlockGet = fn.(func(*factom.DBlock, context.Context, *factom.Client) error)
	case "(*" + f + "EBlock).Get":
		factom.VerifHookEBlockGet = fn.(func(*factom.EBlock, context.Context, *factom.Client) error)
	case "(*" + f + "Entry).Get":
		factom.VerifHookEntryGet = fn.(func(*factom.Entry, context.Context, *factom.Client) error)
	case "(*" + f + "FBlock).Get":
		factom.VerifHookFBlockGet = fn.(func(*factom.FBlock, context.Context, *factom.Client) error)
	case "(*" + f + "FactoidTransaction).Get":
		factom.VerifHookFactoidTransactionGet = fn.(func(*factom.FactoidTransaction, context.Context, *factom.Client) error)
	case "github.com/pegnet/pegnet/modules/grader.NewGrader":
		grader.VerifHookNewGrader = fn.(func(uint8, int32, []string) (grader.BlockGrader, error))
	case "github.com/pegnet/pegnet/modules/graderStake.NewGrader":
		graderStake.VerifHookNewGrader = fn.(func(uint8, int32) (graderStake.BlockGrader, error))
	default:
		if len(name) > 26 && name[:26] == "github.com/pegnet/pegnetd/" {
			// repository code is never replaced natively (symbolic-only summary of e.g. multiFetch)
			return
		}
		panic(fmt.Sprintf("vrt.Stub: no native hook for %s", name))
	}
}

func init() {
	hooks = append(hooks, func() {
		factom.VerifHookHeightsGet = nil
		factom.VerifHookDBlockGet = nil
		factom.VerifHookEBlockGet = nil
		factom.VerifHookEntryGet = nil
		factom.VerifHookFBlockGet = nil
		factom.VerifHookFactoidTransactionGet = nil
		grader.VerifHookNewGrader = nil
		graderStake.VerifHookNewGrader = nil
	})
}
