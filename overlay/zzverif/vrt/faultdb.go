package vrt

import (
	"context"
	"database/sql"
	"database/sql/driver"
	"errors"
	"os"
	"path/filepath"
	"sync"

	sqlite3 "github.com/mattn/go-sqlite3"
)

// A counting / fault-injecting wrapper around the real SQLite driver, so that the
// crash and fault oracles of the symbolic engine ("the k-th DB-API call kills the process /
// fails") can be replayed on the real build. Counted calls: Exec, Query(Row), Prepare,
// Stmt.Exec, Stmt.Query(Row), Begin, Commit — the same the engine counts.

var (
	dbMu      sync.Mutex
	dbCalls   int
	crashAt   = -1
	faultAt   = -1
	dbPaths   = map[*sql.DB]string{}
	liveConns []*fConn
)

var errInjected = errors.New("verif: injected fault")

func init() {
	sql.Register("sqlite3_verif", &fDriver{})
	hooks = append(hooks, func() {
		dbMu.Lock()
		dbCalls, crashAt, faultAt = 0, -1, -1
		liveConns = nil
		dbPaths = map[*sql.DB]string{}
		dbMu.Unlock()
	})
}

type fDriver struct{ d sqlite3.SQLiteDriver }

func (f *fDriver) Open(name string) (driver.Conn, error) {
	c, err := f.d.Open(name)
	if err != nil {
		return nil, err
	}
	fc := &fConn{c: c.(*sqlite3.SQLiteConn)}
	dbMu.Lock()
	liveConns = append(liveConns, fc)
	dbMu.Unlock()
	return fc, nil
}

type fConn struct {
	c    *sqlite3.SQLiteConn
	dead bool
}

// tick counts one DB-API call and applies the oracles.
func tick() error {
	dbMu.Lock()
	k := dbCalls
	dbCalls++
	ca, fa := crashAt, faultAt
	dbMu.Unlock()
	if ca >= 0 && k == ca {
		// the process dies: every connection is torn down without commit
		dbMu.Lock()
		conns := liveConns
		liveConns = nil
		dbMu.Unlock()
		for _, fc := range conns {
			if !fc.dead {
				fc.dead = true
				// a killed process loses its uncommitted work and all its locks at once. Closing
				// alone is not enough to emulate that: SQLite keeps a connection with unfinalised
				// statements (the daemon never closes its prepared statements) alive as a zombie
				// that still holds its locks, so the open transaction is rolled back first.
				fc.c.Exec("ROLLBACK", nil)
				fc.c.Close()
			}
		}
		panic("VERIF-CRASH")
	}
	if fa >= 0 && k == fa {
		return errInjected
	}
	return nil
}

func (c *fConn) Prepare(q string) (driver.Stmt, error) { return c.PrepareContext(context.Background(), q) }
func (c *fConn) PrepareContext(ctx context.Context, q string) (driver.Stmt, error) {
	if err := tick(); err != nil {
		return nil, err
	}
	s, err := c.c.PrepareContext(ctx, q)
	if err != nil {
		return nil, err
	}
	return &fStmt{s: s.(*sqlite3.SQLiteStmt)}, nil
}
func (c *fConn) Close() error {
	if c.dead {
		return nil
	}
	c.dead = true
	return c.c.Close()
}
func (c *fConn) Begin() (driver.Tx, error) { return c.BeginTx(context.Background(), driver.TxOptions{}) }
func (c *fConn) BeginTx(ctx context.Context, o driver.TxOptions) (driver.Tx, error) {
	if err := tick(); err != nil {
		return nil, err
	}
	t, err := c.c.BeginTx(ctx, o)
	if err != nil {
		return nil, err
	}
	return &fTx{t: t}, nil
}
func (c *fConn) ExecContext(ctx context.Context, q string, a []driver.NamedValue) (driver.Result, error) {
	if err := tick(); err != nil {
		return nil, err
	}
	return c.c.ExecContext(ctx, q, a)
}
func (c *fConn) QueryContext(ctx context.Context, q string, a []driver.NamedValue) (driver.Rows, error) {
	if err := tick(); err != nil {
		return nil, err
	}
	return c.c.QueryContext(ctx, q, a)
}
func (c *fConn) Ping(ctx context.Context) error { return nil }

type fStmt struct{ s *sqlite3.SQLiteStmt }

func (s *fStmt) Close() error  { return s.s.Close() }
func (s *fStmt) NumInput() int { return s.s.NumInput() }
func (s *fStmt) Exec(a []driver.Value) (driver.Result, error) {
	if err := tick(); err != nil {
		return nil, err
	}
	return s.s.Exec(a)
}
func (s *fStmt) Query(a []driver.Value) (driver.Rows, error) {
	if err := tick(); err != nil {
		return nil, err
	}
	return s.s.Query(a)
}
func (s *fStmt) ExecContext(ctx context.Context, a []driver.NamedValue) (driver.Result, error) {
	if err := tick(); err != nil {
		return nil, err
	}
	return s.s.ExecContext(ctx, a)
}
func (s *fStmt) QueryContext(ctx context.Context, a []driver.NamedValue) (driver.Rows, error) {
	if err := tick(); err != nil {
		return nil, err
	}
	return s.s.QueryContext(ctx, a)
}

type fTx struct{ t driver.Tx }

func (t *fTx) Commit() error {
	if err := tick(); err != nil {
		t.t.Rollback() // a failed COMMIT leaves nothing applied
		return err
	}
	return t.t.Commit()
}
func (t *fTx) Rollback() error { return t.t.Rollback() }

// NewFaultDB is NewDB through the counting/fault-injecting driver.
func NewFaultDB() *sql.DB {
	dir, err := os.MkdirTemp("", "verifdb")
	if err != nil {
		panic(err)
	}
	openDirs = append(openDirs, dir)
	p := filepath.Join(dir, "pegnet.db")
	db, err := sql.Open("sqlite3_verif", p)
	if err != nil {
		panic(err)
	}
	openDBs = append(openDBs, db)
	dbPaths[db] = p
	return db
}

// CrashAt: the k-th DB-API call (counted from the start of the run) kills the process:
// all connections are dropped without commit and the call panics with "VERIF-CRASH".
func CrashAt(k int) { dbMu.Lock(); crashAt = k; dbMu.Unlock() }

// FaultAt: the k-th DB-API call fails with an error and has no effect.
func FaultAt(k int) { dbMu.Lock(); faultAt = k; dbMu.Unlock() }

// IsCrash recognises the value recovered from a CrashAt panic.
func IsCrash(r interface{}) bool { s, ok := r.(string); return ok && s == "VERIF-CRASH" }

// Reopen is what a new process sees after the old one is gone: a fresh handle on the same
// database file (committed state only). Oracles are switched off.
func Reopen(db *sql.DB) *sql.DB {
	dbMu.Lock()
	crashAt, faultAt = -1, -1
	p := dbPaths[db]
	dbMu.Unlock()
	n, err := sql.Open("sqlite3_verif", p)
	if err != nil {
		panic(err)
	}
	openDBs = append(openDBs, n)
	dbMu.Lock()
	dbPaths[n] = p
	dbMu.Unlock()
	return n
}

func dbCallCount() int { dbMu.Lock(); defer dbMu.Unlock(); return dbCalls }
