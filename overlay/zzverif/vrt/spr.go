package vrt

import (
	"crypto/ed25519"

	"github.com/Factom-Asset-Tokens/factom"
	"github.com/pegnet/pegnet/modules/graderStake"
	"github.com/pegnet/pegnet/modules/opr"
)

// MakeSPR turns e into a staking price record as a staker's software would write it:
// external ids [grader version byte, declared staker id (raw 32-byte address), ed25519 public
// key || signature over the content], content = the protobuf price record (payout address
// `coinbase`, height, one price per V5 asset). `signer` names the test key that signs.
// (Under the symbolic engine: an opaque record carrying version, height, declared id and
// signer; the signature is genuine by construction.)
func MakeSPR(e *factom.Entry, version uint8, height int32, declared []byte, signer int, coinbase string) {
	c := &opr.V2Content{Address: coinbase, ID: "verif", Height: height}
	for i := range opr.V5Assets {
		c.Assets = append(c.Assets, uint64(100000000+i))
	}
	content, err := c.Marshal()
	if err != nil {
		panic("vrt.MakeSPR: " + err.Error())
	}
	k := fsKey(signer)
	sig := ed25519.Sign(k.PrivateKey(), content)
	e.Content = content
	e.ExtIDs = []factom.Bytes{{version}, append([]byte{}, declared...), append(append([]byte{}, k.PublicKey()...), sig...)}
}

// ValidateSPR is what the staking grader of the given version does with a record before it
// admits it (graderStake.ValidateS2 / ValidateS3: shape, version byte, signature of the content
// by the EMBEDDED public key, height, assets, payout address).
func ValidateSPR(version uint8, height int32, entryhash []byte, extids [][]byte, content []byte) bool {
	var err error
	switch version {
	case 6:
		_, err = graderStake.ValidateS2(entryhash, extids, height, content)
	case 7:
		_, err = graderStake.ValidateS3(entryhash, extids, height, content)
	default:
		_, err = graderStake.ValidateS1(entryhash, extids, height, content)
	}
	return err == nil
}
