package vrt

import (
	"crypto/sha512"
	"encoding/json"
	"strconv"

	"github.com/Factom-Asset-Tokens/factom"
	"github.com/Factom-Asset-Tokens/factom/jsonlen"
)

// Deterministic test keys. Key i of type RCD-1 (ed25519) or RCD-e (secp256k1).
func fsKey(i int) factom.FsAddress {
	var k factom.FsAddress
	for j := range k {
		k[j] = byte(i + 1)
	}
	return k
}

func ethKey(i int) factom.EthSecret {
	var k factom.EthSecret
	for j := range k {
		k[j] = byte(i + 1)
	}
	return k
}

// KeyAddress is the address controlled by test key i. (Under the symbolic engine the
// address is an arbitrary distinct constant: the code only copies and compares addresses.)
func KeyAddress(i int, rcde bool) factom.FAAddress {
	if rcde {
		return ethKey(i).FAAddress()
	}
	return fsKey(i).FAAddress()
}

// SignEntry signs e (ChainID, Content must be set) the way fat103.Sign does, but with an
// explicit timestamp salt. signers/rcde name the keys, in ext-id order. extra appends junk
// external ids; corrupt flips a bit of the first signature after signing.
func SignEntry(e *factom.Entry, salt int64, signers []int, rcde []bool, extra int, corrupt bool) {
	timeSalt := []byte(strconv.FormatInt(salt, 10))
	maxLen := jsonlen.Uint64(uint64(len(signers)))
	if len(signers) > 0 {
		maxLen = jsonlen.Uint64(uint64(len(signers) - 1))
	}
	var chain []byte
	if e.ChainID != nil {
		chain = e.ChainID[:]
	} else {
		chain = make([]byte, 32)
	}
	msg := make([]byte, maxLen+len(timeSalt)+len(chain)+len(e.Content))
	i := maxLen
	i += copy(msg[i:], timeSalt)
	i += copy(msg[i:], chain)
	copy(msg[i:], e.Content)
	e.ExtIDs = []factom.Bytes{timeSalt}
	for id, k := range signers {
		s := strconv.FormatUint(uint64(id), 10)
		start := maxLen - len(s)
		copy(msg[start:], s)
		h := sha512.Sum512(msg[start:])
		var signer factom.RCDSigner
		if rcde[id] {
			signer = ethKey(k)
		} else {
			signer = fsKey(k)
		}
		sig := signer.Sign(h[:])
		if corrupt && id == 0 {
			sig[3] ^= 0x40
		}
		e.ExtIDs = append(e.ExtIDs, signer.RCD(), sig)
	}
	for x := 0; x < extra; x++ {
		e.ExtIDs = append(e.ExtIDs, []byte("junk"))
	}
}

// MalleateSig: what any third party can do to a published entry: alter the last byte of the
// first signature (the entry gets different bytes and a different hash). The external ids are
// copied first so that the original entry is left as it was.
func MalleateSig(e *factom.Entry) {
	ext := make([]factom.Bytes, len(e.ExtIDs))
	for i, x := range e.ExtIDs {
		ext[i] = append(factom.Bytes{}, x...)
	}
	if len(ext) >= 3 && len(ext[2]) > 0 {
		ext[2][len(ext[2])-1] ^= 0x01
	}
	e.ExtIDs = ext
}

// Blob encodes a decoded value as entry content (JSON natively; an opaque carrier of the
// value under the symbolic engine, whose parse stub hands it back). Blob(nil) is content
// that does not parse.
func Blob(v interface{}) []byte {
	if v == nil {
		return []byte("{not json")
	}
	b, err := json.Marshal(v)
	if err != nil {
		panic("vrt.Blob: " + err.Error())
	}
	return b
}

// SealEntry gives the entry its real entry hash (the hash of its marshalled bytes), as
// factomd would. Under the symbolic engine the entry keeps the distinct constant the harness
// assigned (hashes are only copied and compared). Call it once the entry is complete and read
// e.Hash afterwards.
func SealEntry(e *factom.Entry) {
	data, err := e.MarshalBinary()
	if err != nil {
		panic("vrt.SealEntry: " + err.Error())
	}
	h := factom.ComputeEntryHash(data)
	e.Hash = &h
}

// JSONDoc writes the compact JSON object {"k1":v1,"k2":v2,...} with the given raw values, in the
// given order (keys may repeat or be unknown to the decoder - that is the point). Under the
// symbolic engine the document is an ordered list of (key, opaque raw value) with a length.
func JSONDoc(keys []string, vals [][]byte) []byte {
	out := []byte{'{'}
	for i, k := range keys {
		if i > 0 {
			out = append(out, ',')
		}
		kb, _ := json.Marshal(k)
		out = append(out, kb...)
		out = append(out, ':')
		out = append(out, vals[i]...)
	}
	return append(out, '}')
}

// RawJSON is a raw JSON value given by its text (`[]`, `null`, `"m"`, `1`).
func RawJSON(text string) []byte { return []byte(text) }

// Reformat returns the same JSON document with insignificant whitespace added: other bytes (and
// so another entry hash), the same compact form, the same decoded value.
func Reformat(content []byte) []byte {
	out := make([]byte, 0, len(content)+1)
	done := false
	for _, c := range content {
		out = append(out, c)
		if !done && (c == '{' || c == '[') {
			out = append(out, ' ')
			done = true
		}
	}
	if !done {
		out = append(out, ' ')
	}
	return out
}

// WithTrailing returns the JSON value followed by further bytes (a second value): not a valid
// document, though a streaming decoder's first Decode still yields the value.
func WithTrailing(content []byte) []byte {
	return append(append([]byte{}, content...), []byte(`{}`)...)
}
