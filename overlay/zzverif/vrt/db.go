package vrt

import (
	"database/sql"
	"os"
	"path/filepath"

	_ "github.com/mattn/go-sqlite3"
)

var openDirs []string
var openDBs []*sql.DB

func init() {
	hooks = append(hooks, func() {
		for _, d := range openDBs {
			d.Close()
		}
		openDBs = nil
		for _, d := range openDirs {
			os.RemoveAll(d)
		}
		openDirs = nil
	})
}

// NewDB opens a fresh database: real SQLite (file in a temp dir, as the daemon
// uses a file) natively; the relational store model under the symbolic engine.
func NewDB() *sql.DB {
	dir, err := os.MkdirTemp("", "verifdb")
	if err != nil {
		panic(err)
	}
	openDirs = append(openDirs, dir)
	db, err := sql.Open("sqlite3", filepath.Join(dir, "pegnet.db"))
	if err != nil {
		panic(err)
	}
	openDBs = append(openDBs, db)
	return db
}

// NewDBNoCheck is NewDB with column CHECK constraints switched off, so a harness
// can show the Go-level funds checks hold without leaning on the SQL backstop.
func NewDBNoCheck() *sql.DB {
	dir, err := os.MkdirTemp("", "verifdb")
	if err != nil {
		panic(err)
	}
	openDirs = append(openDirs, dir)
	db, err := sql.Open("sqlite3", "file:"+filepath.Join(dir, "pegnet.db")+"?_ignore_check_constraints=1")
	if err != nil {
		panic(err)
	}
	openDBs = append(openDBs, db)
	return db
}

// Queryer is what *sql.DB and *sql.Tx have in common.
type Queryer interface {
	Query(query string, args ...interface{}) (*sql.Rows, error)
}

var snaps []map[string][]string

// Snapshot records the full content of every table as seen through q.
func Snapshot(q Queryer) int {
	snap := map[string][]string{}
	rows, err := q.Query(`SELECT name FROM sqlite_master WHERE type = 'table'`)
	if err != nil {
		panic(err)
	}
	var names []string
	for rows.Next() {
		var n string
		if err := rows.Scan(&n); err != nil {
			panic(err)
		}
		names = append(names, n)
	}
	rows.Close()
	for _, n := range names {
		r, err := q.Query(`SELECT rowid, * FROM "` + n + `" ORDER BY rowid`)
		if err != nil {
			panic(err)
		}
		cols, _ := r.Columns()
		for r.Next() {
			vals := make([]interface{}, len(cols))
			ptrs := make([]interface{}, len(cols))
			for i := range vals {
				ptrs[i] = &vals[i]
			}
			if err := r.Scan(ptrs...); err != nil {
				panic(err)
			}
			line := ""
			for _, v := range vals {
				switch x := v.(type) {
				case []byte:
					line += "|b:" + string(x)
				case string:
					line += "|s:" + x
				case nil:
					line += "|null"
				default:
					line += "|" + sprint(x)
				}
			}
			snap[n] = append(snap[n], line)
		}
		r.Close()
	}
	snaps = append(snaps, snap)
	return len(snaps) - 1
}

// SameStore compares two snapshots table by table (rows, row ids, every cell),
// ignoring the named tables.
func SameStore(a, b int, ignore ...string) bool {
	ig := map[string]bool{}
	for _, n := range ignore {
		ig[n] = true
	}
	sa, sb := snaps[a], snaps[b]
	for n, ra := range sa {
		if ig[n] {
			continue
		}
		rb := sb[n]
		if len(ra) != len(rb) {
			return false
		}
		for i := range ra {
			if ra[i] != rb[i] {
				return false
			}
		}
	}
	for n, rb := range sb {
		if !ig[n] && len(sa[n]) != len(rb) {
			return false
		}
	}
	return true
}
