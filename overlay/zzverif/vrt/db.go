package vrt

import (
	"database/sql"
	"os"
	"path/filepath"

	_ "github.com/mattn/go-sqlite3"
)

var openDirs []string
var openDBs []*sql.DB

func init() {
	hooks = append(hooks, func() {
		for _, d := range openDBs {
			d.Close()
		}
		openDBs = nil
		for _, d := range openDirs {
			os.RemoveAll(d)
		}
		openDirs = nil
	})
}

// NewDB opens a fresh database: real SQLite (file in a temp dir, as the daemon
// uses a file) natively; the relational store model under the symbolic engine.
func NewDB() *sql.DB {
	dir, err := os.MkdirTemp("", "verifdb")
	if err != nil {
		panic(err)
	}
	openDirs = append(openDirs, dir)
	db, err := sql.Open("sqlite3", filepath.Join(dir, "pegnet.db"))
	if err != nil {
		panic(err)
	}
	openDBs = append(openDBs, db)
	return db
}
