// Package vrt is the run-time of the verification harnesses. This file holds the
// NATIVE bodies (used by `go test -overlay` replays). Under the symbolic engine
// (gosym) every function here is intercepted and never executed.
package vrt

import (
	"time"
	"encoding/json"
	"fmt"
	"math/big"
	"os"
	"runtime"
	"strconv"
	"strings"
)

var model = map[string]string{}
var seq = map[string]int{}
var params = map[string]int{}

type replayCase struct {
	Name   string            `json:"name"`
	Model  map[string]string `json:"model"`
	Params map[string]int    `json:"params"`
	Repeat int               `json:"repeat"`
}

// RunAll replays every case listed in the JSON file named by $VERIF_MODELS.
func RunAll(h func()) {
	p := os.Getenv("VERIF_MODELS")
	if p == "" {
		fmt.Println("VERIF-NOMODELS")
		return
	}
	b, err := os.ReadFile(p)
	if err != nil {
		panic(err)
	}
	var cases []replayCase
	if err := json.Unmarshal(b, &cases); err != nil {
		panic(err)
	}
	for _, c := range cases {
		n := c.Repeat
		if n < 1 {
			n = 1
		}
		for r := 0; r < n; r++ {
			model = c.Model
			if model == nil {
				model = map[string]string{}
			}
			params = c.Params
			if params == nil {
				params = map[string]int{}
			}
			seq = map[string]int{}
			resetHooks()
			fmt.Printf("VERIF-BEGIN %s\n", c.Name)
			// a harness that does not come back (the code under test hangs: a deadlock among its
			// goroutines, an endless retry) is the native face of the engine's "all goroutines are
			// asleep" outcome: reported like an uncaught panic, the hung goroutine is abandoned
			done := make(chan struct{})
			go func() {
				defer close(done)
				Run(h)
			}()
			hang := 45 * time.Second
			if v, ok := c.Params["hang_seconds"]; ok && v > 0 {
				hang = time.Duration(v) * time.Second
			}
			select {
			case <-done:
			case <-time.After(hang):
				fmt.Printf("VERIF-ASSERT-FAILED uncaught-panic the harness did not return within %v (hang)\n", hang)
			}
			fmt.Printf("VERIF-END %s\n", c.Name)
		}
	}
}

var hooks []func()

func resetHooks() {
	for _, f := range hooks {
		f()
	}
}

type assumeFailed struct{}

// Run executes a harness natively, treating a failed Assume as a divergence.
func Run(h func()) (diverged bool) {
	defer func() {
		if r := recover(); r != nil {
			if _, ok := r.(assumeFailed); ok {
				fmt.Println("VERIF-DIVERGED assume failed")
				diverged = true
				return
			}
			if _, ok := r.(exitSignal); ok {
				return
			}
			fmt.Printf("VERIF-ASSERT-FAILED uncaught-panic %v\n", r)
		}
	}()
	h()
	return false
}

func key(tag string) string {
	seq[tag]++
	if seq[tag] > 1 {
		return fmt.Sprintf("%s#%d", tag, seq[tag])
	}
	return tag
}

func val(tag string) *big.Int {
	k := key(tag)
	s, ok := model[k]
	if !ok {
		fmt.Printf("VERIF-UNSET %s\n", k)
		return new(big.Int)
	}
	v, ok := new(big.Int).SetString(s, 10)
	if !ok {
		panic("bad model value for " + k + ": " + s)
	}
	return v
}

func U64(tag string) uint64 { return val(tag).Uint64() }
func U32(tag string) uint32 { return uint32(val(tag).Uint64()) }
func U8(tag string) uint8   { return uint8(val(tag).Uint64()) }
func I64(tag string) int64  { return val(tag).Int64() }
func I32(tag string) int32  { return int32(val(tag).Int64()) }
func Bool(tag string) bool  { return val(tag).Sign() != 0 }

// Range returns an arbitrary int64 in [lo,hi].
func Range(tag string, lo, hi int64) int64 {
	v := val(tag).Int64()
	if v < lo {
		v = lo
	}
	return v
}

// URange returns an arbitrary uint64 in [lo,hi].
func URange(tag string, lo, hi uint64) uint64 {
	v := val(tag).Uint64()
	if v < lo {
		v = lo
	}
	return v
}

// Choose returns an arbitrary value in [0,n): every alternative is explored.
func Choose(tag string, n int) int {
	if n <= 1 {
		return 0
	}
	return int(val(tag).Int64())
}

func Assume(c bool) {
	if !c {
		panic(assumeFailed{})
	}
}

func Assert(id string, c bool) {
	if f := os.Getenv("VERIF_ASSERTS"); f != "" {
		on := false
		for _, p := range strings.Split(f, ",") {
			if strings.HasPrefix(id, p) {
				on = true
			}
		}
		if !on {
			return
		}
	}
	if c {
		fmt.Printf("VERIF-ASSERT-OK %s\n", id)
	} else {
		fmt.Printf("VERIF-ASSERT-FAILED %s\n", id)
	}
}

func Cover(class string) { fmt.Printf("VERIF-COVER %s\n", class) }

// Symbolic reports whether the harness runs under the symbolic engine.
func Symbolic() bool { return false }

// Param reads a harness bound (set by the driver), with a default.
func Param(name string, def int) int {
	if v, ok := params[name]; ok {
		return v
	}
	if s := os.Getenv("VERIF_PARAM_" + name); s != "" {
		n, _ := strconv.Atoi(s)
		return n
	}
	return def
}

// Permute switches the order oracle on/off (symbolic mode only: map ranges and
// unstable sorts then take every legal order). Natively Go's own randomisation applies.
func Permute(on bool) {}

func ObserveU64(tag string, v uint64) { fmt.Printf("VERIF-OBS %s %d\n", tag, v) }
func ObserveI64(tag string, v int64)  { fmt.Printf("VERIF-OBS %s %d\n", tag, v) }
func ObserveStr(tag string, v string) { fmt.Printf("VERIF-OBS %s %s\n", tag, v) }

// Mode sets an engine mode flag (no native effect).
func Mode(name string, v int) {}

// Yield marks a point where the running goroutine may be overtaken by another one (a request in
// flight). Natively it yields the processor; under the symbolic engine it is a scheduling oracle.
func Yield() { runtime.Gosched() }

type exitSignal struct{}

// Exit ends the harness run (path) without error.
func Exit() { panic(exitSignal{}) }

func sprint(v interface{}) string { return fmt.Sprint(v) }

// Monitor reads an engine monitor counter (e.g. "db-write-during-tx"). The native
// run-time has no monitors and reports 0.
func Monitor(name string) int {
	if name == "dbcalls" {
		return dbCallCount()
	}
	return 0
}

// AndB / OrB / NotB: boolean connectives that do not short-circuit, so oracle code
// written with them does not fork the symbolic path. Natively plain &&, ||, !.
func AndB(a, b bool) bool { return a && b }
func OrB(a, b bool) bool  { return a || b }
func NotB(a bool) bool    { return !a }

// IteU64 selects without branching.
func IteU64(c bool, a, b uint64) uint64 {
	if c {
		return a
	}
	return b
}

// IteI64 selects without branching.
func IteI64(c bool, a, b int64) int64 {
	if c {
		return a
	}
	return b
}

// Digits returns a string of n arbitrary decimal digits.
func Digits(tag string, n int) string {
	b := make([]byte, n)
	for i := range b {
		v := val(tag).Int64()
		if v < '0' || v > '9' {
			v = '0'
		}
		b[i] = byte(v)
	}
	return string(b)
}

// Shared declares the struct behind ptr as shared between goroutines (race analysis of the
// symbolic engine; natively the Go race detector watches everything).
func Shared(ptr interface{}, name string) {}

// Parallel runs f and g as two goroutines (natively: concurrently, repeatedly, under the
// race detector when the check asks for it; symbolically: as two threads of a lockset analysis).
func Parallel(f, g func()) {
	done := make(chan struct{})
	go func() {
		defer close(done)
		for i := 0; i < 300; i++ {
			f()
		}
	}()
	for i := 0; i < 300; i++ {
		g()
		runtime.Gosched()
	}
	<-done
}

// Races is the number of conflicting unsynchronised access pairs found by the engine
// (natively 0: there the race detector's report is the evidence).
func Races() int { return 0 }
