package vrt

import (
	"reflect"
	"unsafe"

	"github.com/pegnet/pegnet/modules/grader"
	"github.com/pegnet/pegnet/modules/graderStake"
	"github.com/pegnet/pegnet/modules/opr"
	"github.com/pegnet/pegnet/modules/spr"
)

func setUnexportedInt(ptr interface{}, field string, v int64) {
	f := reflect.ValueOf(ptr).Elem().FieldByName(field)
	reflect.NewAt(f.Type(), unsafe.Pointer(f.UnsafeAddr())).Elem().SetInt(v)
}

// NewGradingOPR builds a graded OPR record as the grader dependency would hand it over
// (payout and position are unexported there).
func NewGradingOPR(entryHash []byte, payout int64, position int, o opr.OPR) *grader.GradingOPR {
	g := &grader.GradingOPR{EntryHash: entryHash, OPR: o}
	setUnexportedInt(g, "payout", payout)
	setUnexportedInt(g, "position", int64(position))
	return g
}

// NewGradingSPR is NewGradingOPR for staking records.
func NewGradingSPR(entryHash []byte, payout int64, position int, s spr.SPR) *graderStake.GradingSPR {
	g := &graderStake.GradingSPR{EntryHash: entryHash, SPR: s}
	setUnexportedInt(g, "payout", payout)
	setUnexportedInt(g, "position", int64(position))
	return g
}
