package node

import (
	"context"
	"database/sql"
	"errors"
	"time"

	"github.com/Factom-Asset-Tokens/factom"
	"github.com/pegnet/pegnetd/config"
	"github.com/pegnet/pegnetd/fat/fat2"
	"github.com/pegnet/pegnetd/node/pegnet"
	"github.com/pegnet/pegnetd/zzverif/vrt"
	"github.com/spf13/viper"
)

// H-syncloop: the real DBlockSync + SyncBlock (+ the scheduled routines they trigger) driven
// through stubbed Factom requests, with the CRASH oracle (C02: the k-th DB-API call kills the
// process; a new process resumes from the database) or the FAULT oracle (C10: the k-th DB-API
// call or one upstream request fails once; the loop retries). The ledger after each committed
// height must equal the ledger of an uninterrupted, fault-free run; resume must reach it too.
// Also serves C15 (special routines run exactly at their heights) and C14/C15 cadence.

const (
	fxFactomHeights = "(*github.com/Factom-Asset-Tokens/factom.Heights).Get"
	fxFactomDBlock  = "(*github.com/Factom-Asset-Tokens/factom.DBlock).Get"
	fxFactomFBlock  = "(*github.com/Factom-Asset-Tokens/factom.FBlock).Get"
)

type vrtScenario struct {
	start uint32 // synced height before the run; blocks start+1, start+2 are synced
	name  string
}

var vrtScenarios = []vrtScenario{
	{260206, "dev-payout-at-2nd-block"},  // 260208 = 144*1807 >= dev activation: developer payout
	{260116, "old-burn-zeroing"},         // 260118 = dev/SPR-signature activation: zeroing of the old burn address
	{274034, "v202-activation"},          // 274036: zeroing of the global burn address
	{288876, "v204-mint"},                // 288878: mint
	{294204, "v204-burn-minted"},         // 294206: burn what is left of the mint
	{260210, "plain"},                    // nothing scheduled at 260211, 260212
	{258910, "holder-snapshot"},          // 258912 = 144*1798 >= 2.0: holder staking snapshot (no rates: skipped)
	{231618, "v4-fork-crossing"},         // 231620 = first version-checked hard fork: the database starts below it, restarts (the last one at the tip, with the fork block committed) run the hard-fork check for real
}

func vrtNodeOn(db *sql.DB) *Pegnetd {
	p := &pegnet.Pegnet{DB: db}
	if err := p.VrtCreateTables(); err != nil {
		panic("createTables: " + err.Error())
	}
	d := new(Pegnetd)
	d.Pegnet = p
	d.Sync = new(pegnet.BlockSync)
	d.Config = viper.New()
	return d
}

type vrtLoopEnv struct {
	marks     *vrtMarks
	tip       uint32
	failReq   int // index of the upstream request that fails once (-1 none)
	reqs      int
	d         *Pegnetd
	cancel    context.CancelFunc
	blockTime int64
}

// vrtMarks: where in the stream of DB calls / upstream requests each directory-block request sits
type vrtMarks struct {
	dbAt  []int // DB-call count at each DBlock.Get
	reqAt []int // upstream request index of each DBlock.Get
}

var errUpstream = errors.New("verif: upstream request failed")

func (e *vrtLoopEnv) upstream() error {
	k := e.reqs
	e.reqs++
	if k == e.failReq {
		return errUpstream
	}
	return nil
}

func (e *vrtLoopEnv) install() {
	vrt.Stub(fxFactomHeights, func(h *factom.Heights, ctx context.Context, c *factom.Client) error {
		if e.d.Sync.Synced >= e.tip {
			e.cancel() // tip reached: let the loop end
		}
		if err := e.upstream(); err != nil {
			return err
		}
		h.DirectoryBlock = e.tip
		return nil
	})
	vrt.Stub(fxFactomDBlock, func(db *factom.DBlock, ctx context.Context, c *factom.Client) error {
		if e.marks != nil {
			e.marks.dbAt = append(e.marks.dbAt, vrt.Monitor("dbcalls"))
			e.marks.reqAt = append(e.marks.reqAt, e.reqs)
		}
		if err := e.upstream(); err != nil {
			return err
		}
		db.Timestamp = time.Unix(e.blockTime+int64(db.Height)*600, 0)
		db.EBlocks = nil // no tracked chain has entries in these blocks
		return nil
	})
	vrt.Stub(fxFactomFBlock, func(fb *factom.FBlock, ctx context.Context, c *factom.Client) error {
		if err := e.upstream(); err != nil {
			return err
		}
		fb.Transactions = nil
		return nil
	})
}

// vrtRunLoop runs the real DBlockSync until the tip is synced (or the process "dies").
func vrtRunLoop(d *Pegnetd, tip uint32, failReq int, blockTime int64, marks *vrtMarks) (crashed bool) {
	ctx, cancel := context.WithCancel(context.Background())
	env := &vrtLoopEnv{tip: tip, failReq: failReq, d: d, cancel: cancel, blockTime: blockTime, marks: marks}
	env.install()
	defer func() {
		if r := recover(); r != nil {
			if vrt.IsCrash(r) {
				crashed = true
				return
			}
			panic(r)
		}
	}()
	d.DBlockSync(ctx)
	return false
}

func vrtSeedLedger(db *sql.DB, d *Pegnetd, sc vrtScenario, bals []uint64) {
	tx, err := db.Begin()
	if err != nil {
		panic(err)
	}
	// special addresses hold arbitrary balances before the run
	specials := []factom.FAAddress{vrtMustAddr(specOldBurnAddr), vrtMustAddr(specBurnAddr), vrtMustAddr(specMintAddr), vrtAddr(0xC3)}
	k := 0
	for _, a := range specials {
		for _, t := range []fat2.PTicker{fat2.PTickerPEG, fat2.PTickerUSD} {
			vrtSetBalance(tx, a, t, bals[k])
			k++
		}
	}
	if sc.start >= specV202 {
		// from 2.0 on the last holder snapshot is part of the persistent state (it becomes the
		// "past" side of the next payout); seeded from 2.0.2 on only: before that a snapshot block
		// without rates fails for holders (known finding D10) and the loop would retry for ever
		vrtSetBalanceIn(tx, "snapshot_current", vrtAddr(0xC3), fat2.PTickerUSD, bals[7])
		vrtSetBalanceIn(tx, "snapshot_past", vrtAddr(0xC3), fat2.PTickerUSD, bals[6])
	}
	d.Sync.Synced = sc.start
	if err := d.Pegnet.InsertSynced(tx, d.Sync); err != nil {
		panic(err)
	}
	if err := tx.Commit(); err != nil {
		panic(err)
	}
}

// vrtSpecialsAfter: absolute oracle for the one-time adjustments (C15) on the fault-free run:
// after the two blocks of the scenario the special addresses hold exactly what the schedule says
// (burn addresses zeroed at their activation, mint credited / burnt at its heights), and nothing
// else moved (no block of these scenarios carries an entry).
func vrtSpecialsAfter(db *sql.DB, sc vrtScenario, bals []uint64) {
	want := make([]uint64, 8)
	copy(want, bals)
	switch sc.name {
	case "old-burn-zeroing":
		want[0], want[1] = 0, 0
	case "v202-activation":
		want[2], want[3] = 0, 0
	case "v204-mint":
		want[4] += vrtSpecMintAmount(fat2.PTickerPEG)
		want[5] += vrtSpecMintAmount(fat2.PTickerUSD)
	case "v204-burn-minted":
		want[4], want[5] = 0, 0
	}
	specials := []factom.FAAddress{vrtMustAddr(specOldBurnAddr), vrtMustAddr(specBurnAddr), vrtMustAddr(specMintAddr), vrtAddr(0xC3)}
	k := 0
	for i, a := range specials {
		for _, t := range []fat2.PTicker{fat2.PTickerPEG, fat2.PTickerUSD} {
			got := uint64(vrtBalance(db, a, t))
			id := "C15.one-time-adjustments-for-exactly-the-specified-amounts"
			if sc.name == "old-burn-zeroing" && i == 0 {
				// Known finding D20: the zeroing at 260118 records each zeroed asset with
				// InsertZeroingCoinbase, which binds -payout as a uint64; database/sql refuses it
				// for every non-zero payout, NullifyBurnAddress returns at the first held asset
				// and DBlockSync drops the error: the first held asset is zeroed, later ones are not.
				if t == fat2.PTickerPEG {
					id = "C15.old-burn-zeroing-reaches-the-first-held-asset"
				} else if bals[0] > 0 && bals[1] > 0 {
					id = "C15.one-time-adjustments-for-exactly-the-specified-amounts@D20"
				}
			}
			vrt.Assert(id, got == want[k])
			if !(sc.name == "old-burn-zeroing" && i == 0) {
				// read as C04: supply is destroyed / created only by the scheduled event of this height,
				// on the address and for the amount the schedule names (D20's address is left to C15)
				vrt.Assert("C04.scheduled-adjustments-touch-exactly-their-address-and-amount", got == want[k])
			}
			k++
		}
	}
}

// vrtStrictStart: the scenario's database began below every version-checked hard fork, so the daemon
// is started WITHOUT --no-hf: a start that refuses its own database is then a failure of the run
var vrtStrictStart bool

func vrtResume(db *sql.DB) *Pegnetd {
	// what a start of the daemon does: NewPegnetd's own body (regenerated from the current
	// node/node.go on every run, see /verif/hooks.py) on this database - tables + migrations,
	// the sync height, the hard-fork check, and whatever else the start-up path reads into memory
	// (started with --no-hf: the harness databases begin at a mainnet height without the version
	// rows of the earlier fork heights; the hard-fork check still runs, its verdict is C19's subject)
	conf := viper.New()
	conf.Set(config.DisableHardForkCheck, !vrtStrictStart)
	d, err := vrtStartDaemon(context.Background(), conf, db)
	if err != nil {
		panic("resume: " + err.Error())
	}
	if vrtStartExtracted {
		vrt.Cover("real-start-up-code")
	}
	return d
}

func vrtSyncedHeight(db *sql.DB) uint32 {
	p := &pegnet.Pegnet{DB: db}
	s, err := p.SelectSynced(context.Background(), db)
	if err != nil {
		panic("synced: " + err.Error())
	}
	return s.Synced
}

func vrtVersionRows(db *sql.DB, from, to uint32) bool {
	// exactly one pn_sync_version row per height in (from-1, to], none above (rows below `from` are
	// the legacy markers the start-up hard-fork check back-fills for earlier fork heights)
	var n, mn, mx int
	if err := db.QueryRow(`SELECT COUNT(*), COALESCE(MIN(height),0), COALESCE(MAX(height),0) FROM pn_sync_version WHERE height >= ?`, from).Scan(&n, &mn, &mx); err != nil {
		panic(err)
	}
	return n == int(to-from)+1 && uint32(mn) == from && uint32(mx) == to
}

// vrtCallsOf: DB calls made since c0 when only dbR was in use at that time
func vrtCallsOf(db *sql.DB, c0 int) int { return vrtCallsMark - c0 }

var vrtCallsMark int

func VerifSyncLoop() {
	mode := vrt.Param("mode", 0) // 0: crash oracle (C02); 1: fault oracle (C10)
	sc := vrtScenarios[vrt.Choose("scenario", len(vrtScenarios))]
	vrt.Cover(sc.name)
	vrtStrictStart = sc.name == "v4-fork-crossing"
	blockTime := vrt.Range("blockTime", 1500000000, 1600000000)
	bals := make([]uint64, 8)
	for i := range bals {
		bals[i] = vrt.URange("bal", 0, vrtMaxBal/16)
	}
	tip := sc.start + 2

	// ---- reference: uninterrupted, fault-free run, one snapshot per committed height
	dbR := vrt.NewFaultDB()
	dR := vrtNodeOn(dbR)
	vrtSeedLedger(dbR, dR, sc, bals)
	dR = vrtResume(dbR) // the daemon under test is one that was STARTED on this database
	ref := []int{vrt.Snapshot(dbR)}
	c0 := vrt.Monitor("dbcalls")
	marks := new(vrtMarks)
	if vrtRunLoop(dR, tip, -1, blockTime, marks) {
		panic("reference run crashed")
	}
	vrtCallsMark = vrt.Monitor("dbcalls")
	// per-height reference ledgers: a second reference database synced one block at a time
	dbS := vrt.NewFaultDB()
	dS := vrtNodeOn(dbS)
	vrtSeedLedger(dbS, dS, sc, bals)
	dS = vrtResume(dbS) // the daemon under test is one that was STARTED on this database
	// the second replay happens at a later wall-clock second (symbolically every time.Now() is a
	// fresh value anyway; natively the pause makes a stored wall-clock value differ)
	time.Sleep(1100 * time.Millisecond)
	for h := sc.start + 1; h <= tip; h++ {
		if vrtRunLoop(dS, h, -1, blockTime, nil) {
			panic("reference run crashed")
		}
		ref = append(ref, vrt.Snapshot(dbS))
	}
	vrt.Assert("C02.stepwise-and-continuous-sync-agree", vrt.SameStore(vrt.Snapshot(dbR), ref[2], "pn_sync_version"))
	// read as C01: two independent replays of the same chain (different processes in effect: separate
	// databases, separate node objects, different wall-clock instants) end in the same ledger
	vrt.Assert("C01.independent-replays-agree", vrt.SameStore(vrt.Snapshot(dbR), ref[2], "pn_sync_version"))
	vrtSpecialsAfter(dbR, sc, bals)
	// (the reference database dbR made nCalls DB calls; the stepwise one is only a yardstick)
	nCalls := vrtCallsOf(dbR, c0)
	vrt.ObserveI64("dbcalls-per-run", int64(nCalls))
	vrt.Assert("C02.reference-run-reaches-tip", vrtSyncedHeight(dbR) == tip && dR.Sync.Synced == tip)
	vrt.Assert("C02.one-version-row-per-height", vrtVersionRows(dbR, sc.start, tip))

	// ---- the run under an oracle
	db := vrt.NewFaultDB()
	d := vrtNodeOn(db)
	vrtSeedLedger(db, d, sc, bals)
	seeded := vrt.Snapshot(db)
	d = vrtResume(db) // the daemon under test is one that was STARTED on this database
	// a start leaves the committed ledger as it is (its version bookkeeping aside): balances, history,
	// and the two holder snapshots, which are persistent state between snapshot blocks
	vrt.Assert("C02.start-up-leaves-the-committed-ledger-untouched", vrt.SameStore(seeded, vrt.Snapshot(db), "pn_sync_version"))
	vrt.Assert("C14.start-up-keeps-the-holder-snapshots", vrt.SameStore(seeded, vrt.Snapshot(db), "pn_sync_version"))
	base := vrt.Monitor("dbcalls")
	failReq := -1
	k := vrt.Choose("point", nCalls+1) // == nCalls: no DB crash/fault
	if mode == 0 {
		if k < nCalls {
			vrt.CrashAt(base + k)
		}
	} else {
		if vrt.Choose("faultKind", 2) == 1 {
			failReq = vrt.Choose("request", 8) // one upstream request fails once
			k = nCalls
		}
		if k < nCalls {
			vrt.FaultAt(base + k)
		}
	}
	// Known finding D6: DBlockSync discards the result of NullifyBurnAddress, so a fault inside it
	// (its own directory-block request, its balance read, its statements) is not retried.
	// Its calls are the ones between the 1st and the 2nd directory-block request of the activation block.
	d6 := false
	if (sc.name == "old-burn-zeroing" || sc.name == "v202-activation") && len(marks.dbAt) >= 3 {
		lo, hi := marks.dbAt[1]-c0, marks.dbAt[2]-c0
		if mode == 1 && ((failReq < 0 && k >= lo && k < hi) || failReq == marks.reqAt[1]) {
			d6 = true
		}
	}
	crashed := vrtRunLoop(d, tip, failReq, blockTime, nil)
	if crashed {
		vrt.Cover("crashed")
		// ---- a new process opens the database: it holds exactly the blocks up to its sync height
		db2 := vrt.Reopen(db)
		// a daemon that starts on an existing database first runs its schema code (createTables with
		// its migrations, as Pegnet.Init does): that must leave the committed ledger as it is
		atRest := vrt.Snapshot(db2)
		if err := (&pegnet.Pegnet{DB: db2}).VrtCreateTables(); err != nil {
			panic("start-up schema code: " + err.Error())
		}
		vrt.Assert("C02.start-up-leaves-the-committed-ledger-untouched", vrt.SameStore(atRest, vrt.Snapshot(db2)))
		// read as C14: the two holder snapshots are persistent state - a start of the daemon between two
		// snapshot blocks must leave them as they are, or the next payout takes its minimum with nothing
		vrt.Assert("C14.start-up-keeps-the-holder-snapshots", vrt.SameStore(atRest, vrt.Snapshot(db2)))
		s := vrtSyncedHeight(db2)
		vrt.ObserveI64("synced-after-crash", int64(s))
		vrt.Assert("C02.crash-leaves-a-committed-height", s >= sc.start && s <= tip)
		if s >= sc.start && s <= tip {
			vrt.Assert("C02.database-holds-exactly-the-blocks-up-to-sync-height",
				vrt.SameStore(vrt.Snapshot(db2), ref[s-sc.start], "pn_sync_version"))
			vrt.Assert("C02.one-version-row-per-height", vrtVersionRows(db2, sc.start, s))
		}
		// ---- resume to the tip: same ledger as the uninterrupted run
		d2 := vrtResume(db2)
		if vrtRunLoop(d2, tip, -1, blockTime, nil) {
			panic("resume crashed")
		}
		vrt.Assert("C02.resume-reaches-the-uninterrupted-ledger",
			vrtSyncedHeight(db2) == tip && vrt.SameStore(vrt.Snapshot(db2), ref[2], "pn_sync_version"))
		vrt.Assert("C02.one-version-row-per-height", vrtVersionRows(db2, sc.start, tip))
		// ---- and a later stop/start at the tip: the daemon starts on its own database again (its
		// start-up checks accept what it wrote itself) and finds the same ledger
		d3 := vrtResume(db2)
		vrt.Assert("C02.daemon-restarts-on-its-own-database", d3.Sync.Synced == tip && vrt.SameStore(vrt.Snapshot(db2), ref[2], "pn_sync_version"))
		vrt.Assert("C14.start-up-keeps-the-holder-snapshots", vrt.SameStore(vrt.Snapshot(db2), ref[2], "pn_sync_version"))
		return
	}
	vrt.Cover("completed")
	// no crash: (after a transient fault and the retries) the result is the fault-free one
	if d6 {
		vrt.Assert("C10.transient-fault-does-not-change-the-ledger@D6",
			vrtSyncedHeight(db) == tip && vrt.SameStore(vrt.Snapshot(db), ref[2], "pn_sync_version"))
	} else {
		same := vrtSyncedHeight(db) == tip && vrt.SameStore(vrt.Snapshot(db), ref[2], "pn_sync_version")
		vrt.Assert("C10.transient-fault-does-not-change-the-ledger", same)
		// the same fact read as C15: scheduled issuance (developer payout, 2.0.4 mint and its burn)
		// is applied exactly once even when its block had to be retried
		vrt.Assert("C15.scheduled-issuance-exactly-once-across-a-retried-block", same)
	}
	vrt.Assert("C02.in-memory-height-equals-committed-height", d.Sync.Synced == vrtSyncedHeight(db))
	vrt.Assert("C02.one-version-row-per-height", vrtVersionRows(db, sc.start, tip))
}
