package conversions

import (
	"fmt"
	"math/big"

	"github.com/pegnet/pegnetd/zzverif/vrt"
)

// VerifSupply: ConversionSupplySet — C16a (limit, proportional share, full fill),
// C01 (payouts do not depend on map iteration order), building block of C14.
func VerifSupply() {
	maxReq := vrt.Param("maxreq", 3)
	n := 1 + vrt.Choose("n", maxReq)
	bank := vrt.U64("bank")
	set := NewConversionSupply(bank)
	ids := make([]string, n)
	req := make([]uint64, n)
	total := new(big.Int)
	for i := 0; i < n; i++ {
		ids[i] = fmt.Sprintf("%d-%064d", i, 7)
		req[i] = vrt.U64("req")
		total.Add(total, new(big.Int).SetUint64(req[i]))
		if err := set.AddConversion(ids[i], req[i]); err != nil {
			vrt.Assert("C16.add-conversion-accepts-valid-txid", false)
			return
		}
	}
	pay := set.Payouts()
	vrt.Assert("C16.one-payout-per-request", len(pay) == n)
	bBank := new(big.Int).SetUint64(bank)
	sum := new(big.Int)
	for i := 0; i < n; i++ {
		sum.Add(sum, new(big.Int).SetUint64(pay[ids[i]]))
		vrt.ObserveU64(fmt.Sprintf("pay%d", i), pay[ids[i]])
	}
	if total.Cmp(bBank) < 0 {
		vrt.Cover("fits")
		for i := 0; i < n; i++ {
			vrt.Assert("C16.full-fill-when-total-fits", pay[ids[i]] == req[i])
		}
	} else {
		vrt.Cover("limited")
		vrt.Assert("C16.total-paid-equals-bank", sum.Cmp(bBank) == 0)
		var most uint64
		for i := 0; i < n; i++ {
			if req[i] > most {
				most = req[i]
			}
		}
		for i := 0; i < n; i++ {
			// proportional share: floor(req*bank/total), plus dust for one top request
			share := new(big.Int).Mul(new(big.Int).SetUint64(req[i]), bBank)
			if total.Sign() > 0 {
				share.Div(share, total)
			}
			p := new(big.Int).SetUint64(pay[ids[i]])
			vrt.Assert("C16.at-least-proportional-share", p.Cmp(share) >= 0)
			extra := new(big.Int).Sub(p, share)
			vrt.Assert("C16.dust-below-request-count", extra.Cmp(big.NewInt(int64(n))) < 0)
			if req[i] != most {
				vrt.Assert("C16.only-top-request-gets-dust", extra.Sign() == 0)
			}
			// Known finding D9 (legacy era): rounding dust can lift a top request above what it asked for.
			if req[i] == most && extra.Sign() > 0 {
				vrt.Assert("C16.payout-not-above-request@D9", pay[ids[i]] <= req[i])
			} else {
				vrt.Assert("C16.payout-not-above-request", pay[ids[i]] <= req[i])
			}
		}
	}
	vrt.Assert("C16.never-above-bank", sum.Cmp(bBank) <= 0)

	// ---- C01: any map iteration order gives the same payouts
	if vrt.Param("order", 1) == 1 {
		vrt.Permute(true)
		pay2 := set.Payouts()
		vrt.Permute(false)
		for i := 0; i < n; i++ {
			vrt.Assert("C01.payouts-independent-of-map-order", pay2[ids[i]] == pay[ids[i]])
		}
	}
}
