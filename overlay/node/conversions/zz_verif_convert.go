package conversions

import (
	"math/big"

	"github.com/pegnet/pegnetd/zzverif/vrt"
)

// Spec constants (copied from the protocol, NOT read from config.*, so that an
// edit of the activation table is a detectable change).
const specPIP10 uint32 = 295190

// VerifConvert: C07a — Convert is floor(amount*S/D) with the PIP-10 min/max rule,
// errors exactly when specified, and never increases USD value.
func VerifConvert() {
	height := vrt.U32("height")
	amount := vrt.I64("amount")
	fr := vrt.U64("fromRate")
	fa := vrt.U64("fromAvg")
	tr := vrt.U64("toRate")
	ta := vrt.U64("toAvg")

	out, err := Convert(height, amount, fr, fa, tr, ta)
	vrt.ObserveI64("out", out)

	pip10 := height >= specPIP10
	S, D := fr, tr
	wantErr := amount < 0 || fr == 0 || tr == 0
	if pip10 {
		if fa == 0 || ta == 0 {
			wantErr = true
		}
		if fa < S {
			S = fa
		}
		if ta > D {
			D = ta
		}
	}
	if wantErr {
		vrt.Cover("specified-error")
		vrt.Assert("C07a.error-when-specified", err != nil && out == 0)
		return
	}
	prod := new(big.Int).Mul(big.NewInt(amount), new(big.Int).SetUint64(S))
	bD := new(big.Int).SetUint64(D)
	lim := new(big.Int).Mul(bD, new(big.Int).Lsh(big.NewInt(1), 63)) // D * 2^63
	if err != nil {
		vrt.Cover("overflow-error")
		// the only other legal error: floor(amount*S/D) does not fit int64
		vrt.Assert("C07a.error-only-on-overflow", prod.Cmp(lim) >= 0 && out == 0)
		return
	}
	if pip10 {
		vrt.Cover("converted-pip10")
	} else {
		vrt.Cover("converted-legacy")
	}
	vrt.Assert("C07a.no-missed-overflow", prod.Cmp(lim) < 0)
	o := big.NewInt(out)
	lo := new(big.Int).Mul(o, bD)
	hi := new(big.Int).Add(lo, bD)
	vrt.Assert("C07a.floor", out >= 0 && lo.Cmp(prod) <= 0 && prod.Cmp(hi) < 0)
	// value non-increase at the spot rates: out*toRate <= amount*fromRate
	vOut := new(big.Int).Mul(o, new(big.Int).SetUint64(tr))
	vIn := new(big.Int).Mul(big.NewInt(amount), new(big.Int).SetUint64(fr))
	vrt.Assert("C07a.value-non-increase", vOut.Cmp(vIn) <= 0)
}
