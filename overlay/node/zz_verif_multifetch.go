package node

import (
	"context"
	"errors"

	"github.com/Factom-Asset-Tokens/factom"
	"github.com/pegnet/pegnetd/config"
	"github.com/pegnet/pegnetd/zzverif/vrt"
)

// H-multifetch: the real multiFetch (8 worker goroutines, a work channel, an unbuffered result
// channel) over an entry block of 1..3 entries whose requests fail or not. Under the symbolic
// engine goroutines and channels are sequentialised (deterministic scheduling) with one oracle:
// which of several waiting workers delivers its result first.
//   C10  a failed entry request fails the fetch (the block is then retried), whatever the order
//        in which the results arrive; without a failure every entry is populated
//   C08  the fetch terminates (no deadlock, no crash of the process)
func VerifMultiFetch() {
	n := 1 + vrt.Choose("entries", vrt.Param("maxentries", 3))
	failAt := vrt.Choose("failAt", n+1) - 1 // -1: every request succeeds
	ebFails := vrt.Choose("eblockFails", 2) == 1
	if many := vrt.Param("many", 0); many > 0 {
		// a full entry block (more entries than workers and than any fixed queue): no failure, the
		// deterministic schedule only; what is decided is termination and completeness
		n, failAt, ebFails = many, -1, false
	} else {
		vrt.Mode("recvoracle", 1)
	}
	chain := config.TransactionChain
	eb := new(factom.EBlock)
	eb.ChainID = &chain
	eb.Height = 300000
	eb.KeyMR = vrtHash(0x70)
	fetched := make([]bool, n)
	upstream := errors.New("verif: upstream request failed")
	vrt.Stub(fxFactomEBlk, func(e *factom.EBlock, c context.Context, cl *factom.Client) error {
		if ebFails {
			return upstream
		}
		e.Entries = make([]factom.Entry, n)
		for i := range e.Entries {
			e.Entries[i].ChainID = &chain
			e.Entries[i].Hash = vrtHash(byte(0x20 + i))
		}
		return nil
	})
	vrt.Stub(fxFactomEntry, func(e *factom.Entry, c context.Context, cl *factom.Client) error {
		i := int(e.Hash[31]) - 0x20
		if i < 0 {
			i += 256
		}
		vrt.Yield() // the request is in flight: another worker may finish first
		if i == failAt {
			return upstream
		}
		e.Content = factom.Bytes{byte(i + 1)}
		fetched[i] = true
		return nil
	})
	err := multiFetch(eb, nil)
	switch {
	case ebFails:
		vrt.Cover("eblock-request-failed")
		vrt.Assert("C10.failed-upstream-request-fails-the-fetch", err != nil)
	case failAt >= 0:
		vrt.Cover("entry-request-failed")
		vrt.Assert("C10.failed-upstream-request-fails-the-fetch", err != nil)
		// read as C11 (and C05/C06 for the transaction chain): the records of a block either all
		// reach grading or the block fails - a record on chain is never graded as absent
		vrt.Assert("C11.every-record-of-the-block-reaches-grading-or-the-block-fails", err != nil)
	default:
		vrt.Cover("all-fetched")
		vrt.Assert("C10.fetch-without-failure-succeeds", err == nil)
		for i := 0; i < n; i++ {
			vrt.Assert("C10.every-entry-is-populated-when-the-fetch-succeeds", fetched[i] && len(eb.Entries[i].Content) == 1)
		}
		// C01: the entries come back in entry-block order whatever order the requests completed in
		vrt.Assert("C01.fetched-entries-keep-chain-order", len(eb.Entries) == n)
		for i := 0; i < n && i < len(eb.Entries); i++ {
			vrt.Assert("C01.fetched-entries-keep-chain-order", eb.Entries[i].Hash != nil && int(eb.Entries[i].Hash[31]) == 0x20+i && len(eb.Entries[i].Content) == 1 && int(eb.Entries[i].Content[0]) == i+1)
		}
	}
}
