package node

import (
	"context"
	"database/sql"
	"fmt"
	"math/big"
	"time"

	"github.com/Factom-Asset-Tokens/factom"
	"github.com/pegnet/pegnetd/config"
	"github.com/pegnet/pegnetd/fat/fat2"
	"github.com/pegnet/pegnetd/zzverif/vrt"
)

// H-holding: ApplyTransactionBatchesInHolding (+ SyncBank, recordPegnetRequests, Refund,
// bank table) on conversions that were put into holding by the real ApplyTransactionBlock
// in earlier committed blocks. Serves C07b (which block executes a held conversion, at which
// rates), C06 (each held batch is considered exactly once: window partition), C05b
// (re-validation at the executing height), C13 (PEG destination from 2.0), C16b (bank limit,
// yield + refund, bank ledger), C03/C04 (rejected = no effect; supply), C17 (status).

func vrtSignedConversion(hash *factom.Bytes32, blockTime int64, amt uint64, src, dst fat2.PTicker, rcde bool) factom.Entry {
	chain := config.TransactionChain
	var e factom.Entry
	e.ChainID = &chain
	e.Hash = hash
	e.Timestamp = time.Unix(blockTime, 0)
	A := vrt.KeyAddress(0, rcde)
	b := new(fat2.TransactionBatch)
	b.Version = 1
	var t fat2.Transaction
	t.Input.Address = A
	t.Input.Type = src
	t.Input.Amount = amt
	t.Conversion = dst
	b.Transactions = []fat2.Transaction{t}
	e.Content = vrt.Blob(b)
	vrt.SignEntry(&e, blockTime, []int{0}, []bool{rcde}, 0, false)
	vrt.SealEntry(&e)
	return e
}

type vrtHeld struct {
	hash   *factom.Bytes32
	height uint32
	amt    uint64
	dst    fat2.PTicker
}

func VerifHolding() {
	AveragePeriod = 3
	AverageRequired = 1
	ctx := context.Background()
	// executing heights, one per era (concrete: they are keys of table rows)
	eras := []uint32{222275, 231625, 258800, 295195} // bank-limited per height | V4 pooled bank | 2.0 (no PEG conversions) | PIP-10 averages
	if vrt.Param("edges", 1) == 1 {
		// the activation blocks themselves: the window of held heights straddles the era change
		eras = append(eras, 222270, 231620, 258796, 295190)
	}
	c := eras[vrt.Choose("era", len(eras))]
	gap := uint32(1 + vrt.Choose("gap", 2)) // blocks c-gap+1 .. c-1 have no rates
	last := c - gap                         // most recent rated height before c
	A := vrt.KeyAddress(0, false)
	src := fat2.PTickerUSD
	dsts := []fat2.PTicker{fat2.PTickerXBT, fat2.PTickerPEG, fat2.PTickerFCT, fat2.PTickerDCR}
	if vrt.Param("alldst", 1) == 0 {
		dsts = dsts[:2]
	}
	assets := []fat2.PTicker{fat2.PTickerUSD, fat2.PTickerXBT, fat2.PTickerPEG, fat2.PTickerFCT, fat2.PTickerDCR}
	blockTime := int64(1600000000)
	fixRates := vrt.Param("fixrates", 0) == 1 // every rate 1e8: the run is about ordering/bank allocation, not the formula

	// ---- inputs: rates of the last rated block, balances, held batches, rates of block c
	rLast := map[fat2.PTicker]uint64{}
	bal := map[fat2.PTicker]uint64{}
	rates := map[fat2.PTicker]uint64{}
	for _, t := range assets {
		if fixRates {
			rLast[t] = 100000000
		} else {
			rLast[t] = vrt.URange("rateLast", 1, 1<<40)
			if t == fat2.PTickerPEG && vrt.Choose("pegUnpricedAtLast", 2) == 1 {
				rLast[t] = 0 // PEG not priced in the last rated block (equation phase without supply, ...)
			}
		}
	}
	for _, t := range assets {
		bal[t] = vrt.URange("bal", 0, vrtMaxBal/8)
	}
	nHeld := 1 + vrt.Choose("nheld", vrt.Param("maxheld", 2))
	var held []vrtHeld
	var heldEntries []factom.Entry
	for i := 0; i < nHeld; i++ {
		// held at a height inside the window [last, c) or just before it (already considered earlier)
		off := vrt.Choose("heldAt", int(gap)+1) // 0 => last-1 (outside), k>=1 => last+k-1
		h := last - 1 + uint32(off)
		hv := vrtHeld{hash: vrtHash(byte(0x40 + i)), height: h, amt: vrt.URange("amt", 0, vrtMaxBal/8), dst: dsts[vrt.Choose("dst", len(dsts))]}
		// heights of held batches are non-decreasing (chain order)
		if i > 0 {
			vrt.Assume(h >= held[i-1].height)
			// two held entries are two different entries: byte-identical content at one height would be
			// one entry and its replay (the transaction-block harness's subject), and the real entry
			// hash - a function of the bytes - would coincide
			vrt.Assume(!(h == held[i-1].height && hv.dst == held[i-1].dst && hv.amt == held[i-1].amt))
		}
		e := vrtSignedConversion(hv.hash, blockTime+int64(h)*600, hv.amt, src, hv.dst, false)
		hv.hash = e.Hash
		held = append(held, hv)
		heldEntries = append(heldEntries, e)
	}
	for _, t := range assets {
		if fixRates {
			rates[t] = 100000000
		} else {
			rates[t] = vrt.URange("rate", 0, 1<<40)
		}
	}
	sprOnlyLast := c >= specV20 && vrt.Choose("lastRatedByStakingOnly", 2) == 1
	winnerlessInGap := gap == 2 && vrt.Choose("winnerlessOPRBlockInGap", 2) == 1
	// setup: the committed chain state before block c, then block c's own rate rows (as
	// InsertRates records them before the holding pass), on a given database
	setup := func(db *sql.DB) (*Pegnetd, *sql.Tx) {
		d := vrtNodeOn(db)
		// winner rows of the rated blocks: the older one was graded by the miners' records; the last
		// one as well - or, from 2.0 on, it may have been rated by the staking records alone
		for _, wh := range []uint32{last - 3, last} {
			if wh == last && sprOnlyLast {
				continue
			}
			if _, err := db.Exec(`INSERT INTO pn_winners (height, entryhash, oprhash, payout, grade, nonce, difficulty, position, minerid, address) VALUES (?, ?, ?, ?, ?, ?, ?, ?, ?, ?)`,
				wh, []byte{1}, []byte{2}, 0, 0.0, []byte{3}, []byte{4}, 0, "m", []byte{5}); err != nil {
				panic(err)
			}
		}
		// pn_grade rows: a block graded from an OPR entry block has one (the two rated blocks unless the
		// last one was rated by staking records alone); an unrated block in the gap has one too when it
		// carried an OPR entry block without winners
		gradeRow := func(h uint32) {
			if _, err := db.Exec("INSERT INTO pn_grade (height, keymr, prevkeymr, eb_seq, shorthashes, version, cutoff, count) VALUES ($1, $2, $3, $4, $5, $6, $7, $8)",
				h, []byte{1}, []byte{2}, 1, []byte("[]"), 1, 50, 0); err != nil {
				panic(err)
			}
		}
		gradeRow(last - 3)
		if !sprOnlyLast {
			gradeRow(last)
		}
		if winnerlessInGap {
			gradeRow(c - 1)
		}
		for _, t := range assets {
			// an older rated block, outside the averaging window of `last` (period 3)
			if _, err := db.Exec("INSERT INTO pn_rate (height, token, value) VALUES ($1, $2, $3)", last-3, t.String(), 100000000); err != nil {
				panic(err)
			}
			if _, err := db.Exec("INSERT INTO pn_rate (height, token, value) VALUES ($1, $2, $3)", last, t.String(), rLast[t]); err != nil {
				panic(err)
			}
		}
		tx0, _ := db.Begin()
		for _, t := range assets {
			vrtSetBalance(tx0, A, t, bal[t])
		}
		if err := tx0.Commit(); err != nil {
			panic(err)
		}
		for i, hv := range held {
			txh, _ := db.Begin()
			if err := d.ApplyTransactionBlock(txh, vrtEBlock(hv.height, blockTime+int64(hv.height)*600, []factom.Entry{heldEntries[i]})); err != nil {
				panic("arrival block: " + err.Error())
			}
			if err := txh.Commit(); err != nil {
				panic(err)
			}
		}
		tx, err := db.Begin()
		if err != nil {
			panic(err)
		}
		for _, t := range assets {
			if _, err := tx.Exec("INSERT INTO pn_rate (height, token, value) VALUES ($1, $2, $3)", c, t.String(), rates[t]); err != nil {
				panic(err)
			}
		}
		return d, tx
	}
	if vrt.Param("fault", 0) == 1 {
		// ---- C10: one DB-API call of the holding pass fails once: the block fails, or nothing differs
		dbR := vrt.NewFaultDB()
		dR, txR := setup(dbR)
		c0 := vrt.Monitor("dbcalls")
		errR := dR.SyncBank(ctx, txR, c)
		if errR == nil {
			errR = dR.ApplyTransactionBatchesInHolding(ctx, txR, c, rates)
		}
		nCalls := vrt.Monitor("dbcalls") - c0
		if errR != nil {
			return
		}
		if cerr := txR.Commit(); cerr != nil {
			panic(cerr)
		}
		dbF := vrt.NewFaultDB()
		dF, txF := setup(dbF)
		vrt.FaultAt(vrt.Monitor("dbcalls") + vrt.Choose("point", nCalls))
		var errF error
		died := false
		func() {
			// the averages routine deliberately panics on a database error: the process ends and is
			// restarted, which retries the block (an allowed outcome: nothing is committed short)
			defer func() {
				if r := recover(); r != nil {
					died = true
				}
			}()
			errF = dF.SyncBank(ctx, txF, c)
			if errF == nil {
				errF = dF.ApplyTransactionBatchesInHolding(ctx, txF, c, rates)
			}
		}()
		if died {
			vrt.Cover("fault-ended-process")
			return
		}
		if errF == nil {
			errF = txF.Commit()
		} else {
			txF.Rollback()
		}
		if errF != nil {
			// the sync loop rolls the block back and retries it with the same daemon
			vrt.Cover("fault-failed-block")
			tx2, err2 := dbF.Begin()
			if err2 == nil {
				// block c's rate rows were rolled back with the failed attempt
				for _, t := range assets {
					if _, err := tx2.Exec("INSERT INTO pn_rate (height, token, value) VALUES ($1, $2, $3)", c, t.String(), rates[t]); err != nil {
						panic(err)
					}
				}
				err2 = dF.SyncBank(ctx, tx2, c)
			}
			if err2 == nil {
				err2 = dF.ApplyTransactionBatchesInHolding(ctx, tx2, c, rates)
			}
			if err2 == nil {
				err2 = tx2.Commit()
			}
			vrt.Assert("C10.retry-after-statement-fault-succeeds", err2 == nil)
			if err2 == nil {
				vrt.Assert("C10.retry-after-statement-fault-reaches-the-fault-free-ledger", vrt.SameStore(vrt.Snapshot(dbF), vrt.Snapshot(dbR)))
			}
			return
		}
		vrt.Cover("fault-survived")
		vrt.Assert("C10.statement-fault-fails-the-block-or-changes-nothing", vrt.SameStore(vrt.Snapshot(dbF), vrt.Snapshot(dbR)))
		return
	}
	db := vrt.NewDB()
	d, tx := setup(db)
	// ---- specification ------------------------------------------------------------
	// averages as of the last rated block: mean over the rated blocks of the window (only `last` here)
	avg := rLast
	expBal := map[fat2.PTicker]uint64{}
	for k, v := range bal {
		expBal[k] = v
	}
	status := make([]int64, nHeld)   // expected executed column
	yield := make([]uint64, nHeld)   // expected to_amount
	type req struct {
		idx  int
		want uint64
	}
	var bankUsed, bankReq uint64
	// payGroup: the PEG requests that share one bank are paid (proportionally when they exceed
	// it, rounding dust to the largest) and the unconverted part is refunded in the source asset
	payGroup := func(g []req) {
		if len(g) == 0 {
			return
		}
		total := new(big.Int)
		for _, r := range g {
			total.Add(total, new(big.Int).SetUint64(r.want))
		}
		bank := new(big.Int).SetUint64(specBank)
		var paid uint64
		for _, r := range g {
			y := r.want
			if total.Cmp(bank) >= 0 {
				s := new(big.Int).Mul(new(big.Int).SetUint64(r.want), bank)
				s.Div(s, total)
				y = s.Uint64()
			}
			yield[r.idx] = y
			paid += y
		}
		if total.Cmp(bank) >= 0 {
			dust := specBank - paid
			top := g[0]
			for _, r := range g[1:] {
				if r.want > top.want {
					top = r
				}
			}
			yield[top.idx] += dust
		}
		for _, r := range g {
			expBal[fat2.PTickerPEG] += yield[r.idx]
			bankUsed += yield[r.idx]
			bankReq += r.want
			if yield[r.idx] < r.want {
				back := new(big.Int).Mul(new(big.Int).SetUint64(r.want-yield[r.idx]), new(big.Int).SetUint64(rates[fat2.PTickerPEG]))
				back.Div(back, new(big.Int).SetUint64(rates[src]))
				expBal[src] += back.Uint64()
			}
		}
	}
	var cur []req
	curH := uint32(0)
	for i, hv := range held {
		if hv.height < last {
			status[i] = 0 // not in this block's window: untouched
			continue
		}
		// before V4 every arrival height is settled (yield + refund) before the next one is looked at
		if c < specV4 && len(cur) > 0 && hv.height != curH {
			payGroup(cur)
			cur = nil
		}
		curH = hv.height
		if c >= specV20 && hv.dst == fat2.PTickerPEG {
			status[i] = -2
			continue
		}
		var want int64 = 1
		switch {
		case hv.amt > expBal[src]:
			want = -1
		case rates[src] == 0 || rates[hv.dst] == 0:
			want = -4
		case c >= specOneWayFCT && hv.dst == fat2.PTickerFCT:
			want = -3
		case c >= specOneWaySmall && (hv.dst == fat2.PTickerPEG || vrtIsSmallCap(hv.dst)):
			want = -5
		}
		if want < 0 {
			status[i] = want
			continue
		}
		out, ok := vrtRefConvert(c, hv.amt, rates[src], avg[src], rates[hv.dst], avg[hv.dst])
		if !ok {
			status[i] = 0 // dropped silently, stays pending (D11)
			continue
		}
		vrt.Assume(out < vrtMaxBal/8)
		status[i] = int64(c)
		expBal[src] -= hv.amt
		if hv.dst == fat2.PTickerPEG && c >= specConvLimit {
			cur = append(cur, req{i, out})
		} else {
			expBal[hv.dst] += out
			yield[i] = out
		}
	}
	payGroup(cur)
	// ---- code under test (as SyncBlock orders it) ------------------------------------
	if err := d.SyncBank(ctx, tx, c); err != nil {
		panic("SyncBank: " + err.Error())
	}
	err := d.ApplyTransactionBatchesInHolding(ctx, tx, c, rates)
	// -----------------------------------------------------------------------------------
	if err != nil {
		vrt.Cover("block-error")
		vrt.ObserveStr("error", err.Error())
	}
	vrt.Assert("C08.holding-pass-never-fails-block", err == nil)
	if err != nil {
		return
	}
	vrt.Cover("applied")
	anyExec := false
	for i, hv := range held {
		_, executed := vrtStatus(tx, hv.hash)
		vrt.ObserveI64(fmt.Sprintf("executed%d", i), executed)
		vrt.ObserveI64(fmt.Sprintf("expected%d", i), status[i])
		if status[i] > 0 {
			anyExec = true
		}
		vrt.Assert("C07.held-conversion-executes-in-first-rated-block-after-arrival", (executed == int64(c)) == (status[i] > 0))
		if hv.height < last {
			vrt.Assert("C06.batch-outside-window-not-reconsidered", executed == 0)
		}
		vrt.Assert("C17.holding-status-matches-outcome", executed == status[i])
		if status[i] > 0 {
			vrt.Assert("C07.credited-amount-is-floor-at-this-blocks-rates", uint64(vrtToAmount(tx, hv.hash, 0)) == yield[i])
			// read as C17: the history row of an executed conversion records the amount that was credited
			// (for a PEG request served in part: the granted yield, not the request)
			vrt.Assert("C17.executed-conversion-records-the-credited-amount", uint64(vrtToAmount(tx, hv.hash, 0)) == yield[i])
			vrt.Assert("C16.yield-never-above-request", hv.dst != fat2.PTickerPEG || c >= specV20 || yield[i] <= specBank)
		}
		if c >= specV20 && hv.dst == fat2.PTickerPEG && hv.height >= last {
			vrt.Assert("C13.peg-destination-rejected-from-2.0", executed == -2)
		}
	}
	if anyExec {
		vrt.Cover("some-executed")
	}
	for _, t := range assets {
		got := uint64(vrtBalance(tx, A, t))
		vrt.Assert("C07.balances-follow-the-conversion-formula", t == fat2.PTickerPEG || got == expBal[t])
		vrt.Assert("C16.peg-created-per-bank-rule", t != fat2.PTickerPEG || got == expBal[t])
		// the other side of a partly served PEG request: the refund is the unconverted part of the input,
		// (requested - yield) PEG converted back at this block's rates, not a unit more
		vrt.Assert("C16.refund-returns-exactly-the-unconverted-part", t == fat2.PTickerPEG || got == expBal[t])
		vrt.Assert("C04.holding-pass-supply", got == expBal[t])
		vrt.Assert("C03.holding-pass-balances-exact", got == expBal[t])
		vrt.Assert("C06.held-batch-takes-effect-exactly-once", got == expBal[t])
		// read as C17: the balances are what the recorded history (one status, one amount per
		// batch, checked above) accounts for - nothing is credited beside the record
		vrt.Assert("C17.balances-are-what-the-recorded-actions-account-for", got == expBal[t])
	}
	if c >= specV4 && c < specV20 {
		be, berr := d.Pegnet.SelectBankEntry(tx, int32(c))
		vrt.Assert("C16.bank-ledger-records-amount-used-requested", berr == nil && uint64(be.BankAmount) == specBank && uint64(be.BankUsed) == bankUsed && uint64(be.PEGRequested) == bankReq)
		vrt.Assert("C16.peg-created-never-exceeds-bank", bankUsed <= specBank)
	}
	vrt.Assert("C02.no-write-outside-block-tx", vrt.Monitor("db-write-during-tx") == 0)
}
