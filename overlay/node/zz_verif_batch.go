package node

import (
	"math/big"
	"time"

	"github.com/Factom-Asset-Tokens/factom"
	"github.com/pegnet/pegnetd/fat/fat2"
	"github.com/pegnet/pegnetd/node/pegnet"
	"github.com/pegnet/pegnetd/zzverif/vrt"
)

// H-batch: applyTransactionBatch / recordBatch on an arbitrary ledger pre-state.
// Serves C03 (no overdraft, all-or-nothing), C04 (conservation), C17 (status), C02b (handle discipline).

func VerifBatch()        { vrtBatchHarness(false) }
func VerifBatchNoCheck() { vrtBatchHarness(true) }

var vrtTickerSets = [][]fat2.PTicker{
	{fat2.PTickerPEG, fat2.PTickerUSD},
	{fat2.PTickerPEG, fat2.PTickerUSD, fat2.PTickerFCT},
	{fat2.PTickerPEG, fat2.PTickerUSD, fat2.PTickerFCT, fat2.PTickerDCR, fat2.PTickerXBT},
}

func vrtBatchHarness(nocheck bool) {
	d, db := vrtNode(nocheck)
	A, B, C := vrtAddr(0xA1), vrtAddr(0xB2), vrtAddr(0xC3)
	burn := vrtMustAddr(specBurnAddr)
	var zero factom.FAAddress
	outPool := []factom.FAAddress{A, B, burn, zero}
	if vrt.Param("outpool", 4) < 4 {
		outPool = outPool[:vrt.Param("outpool", 4)]
	}
	allAddrs := []factom.FAAddress{A, B, C, burn, zero}
	tickers := vrtTickerSets[vrt.Param("tickerset", 1)]
	maxTx := vrt.Param("maxtx", 2)
	maxOut := vrt.Param("maxout", 2)
	shape := vrt.Param("shape", 0) // 0 any mix, 1 transfers only, 2 conversions only
	fixedRows := vrt.Param("fixedrows", 0) == 1 // pre-state rows: A, B, C present; burn/zero absent

	height := vrt.U32("height")
	vrt.Assume(height >= specTxActivation)

	// ---- the batch: one input address (as ValidData demands), 1..maxTx transactions
	batch := new(fat2.TransactionBatch)
	batch.Version = 1
	batch.Entry.Hash = vrtHash(1)
	batch.Entry.Timestamp = time.Unix(1600000000, 0)
	n := maxTx
	if vrt.Param("exactntx", 0) == 0 {
		n = 1 + vrt.Choose("ntx", maxTx)
	}
	hasConv := false
	for i := 0; i < n; i++ {
		var tx fat2.Transaction
		tx.Input.Address = A
		si := vrt.Choose("src", len(tickers))
		tx.Input.Type = tickers[si]
		tx.Input.Amount = vrt.URange("amt", 0, vrtMaxBal)
		kind := 0
		switch shape {
		case 0:
			kind = vrt.Choose("kind", 2)
		case 2:
			kind = 1
		case 3: // transfer, conversion, transfer, ... (in-batch credit between two spends)
			kind = i % 2
		}
		if kind == 1 {
			di := vrt.Choose("dst", len(tickers)-1)
			if di >= si {
				di++
			}
			tx.Conversion = tickers[di]
			hasConv = true
		} else {
			m := 1 + vrt.Choose("nout", maxOut)
			// output amounts are ARBITRARY 64-bit values: that they add up to the input (without
			// wrapping) is the job of the real ValidData below, not of this harness
			for j := 0; j < m; j++ {
				var tr fat2.AddressAmountTuple
				tr.Address = outPool[vrt.Choose("to", len(outPool))]
				tr.Amount = vrt.U64("out")
				tx.Transfers = append(tx.Transfers, tr)
			}
		}
		batch.Transactions = append(batch.Transactions, tx)
	}
	// the real validity predicate of the repo (what every caller has checked)
	vrt.Assume(batch.ValidData() == nil)
	// caller guarantee: from PegNet 2.0 on batches converting into PEG never reach
	// applyTransactionBatch (ValidatePegTx rejects them first)
	if height >= specV20 {
		vrt.Assume(batch.ValidatePegTx(int32(height)) == nil)
	}

	// ---- caller context: batches without conversions are applied on arrival with no
	// rates; batches with conversions are applied from holding with the block's rates
	var rates, avgs map[fat2.PTicker]uint64
	if hasConv {
		rates = make(map[fat2.PTicker]uint64)
		avgs = make(map[fat2.PTicker]uint64)
		// a ticker missing from the map reads as 0, exactly like a recorded 0: one symbolic
		// value covers both. (SyncBlock runs the holding pass only when the block has rates,
		// so the map is never empty.)
		for _, t := range tickers {
			rates[t] = vrt.U64("rate")
			avgs[t] = vrt.U64("avg")
		}
	}

	// ---- arbitrary ledger pre-state (INV: every balance < 2^62), through a block Tx
	tx, err := db.Begin()
	if err != nil {
		panic(err)
	}
	total := make([]uint64, len(tickers))
	for ai, a := range allAddrs {
		if fixedRows {
			if ai >= 3 {
				break
			}
		} else {
			if ai == 3 && vrt.Choose("special-rows", 2) == 0 {
				break // burn / zero address without a row
			}
			if ai == 1 && vrt.Choose("b-row", 2) == 0 {
				continue
			}
			if ai == 0 && vrt.Choose("a-row", 2) == 0 {
				continue
			}
		}
		for ti, t := range tickers {
			b := vrt.URange("bal", 0, vrtMaxBal)
			total[ti] += b
			vrt.Assume(total[ti] < vrtMaxBal) // INV I2: per-asset supply < 2^62
			vrtSetBalance(tx, a, t, b)
		}
	}
	// INV I2 also holds on the way: whatever the batch may credit (transfers, conversion
	// outputs at these rates) keeps every per-asset total below 2^62. Rates that would mint
	// more are outside the claim (SQLite would leave the integer domain).
	for _, t := range batch.Transactions {
		if t.IsConversion() {
			if out, ok := vrtRefConvert(height, t.Input.Amount, rates[t.Input.Type], avgs[t.Input.Type], rates[t.Conversion], avgs[t.Conversion]); ok {
				for ti, tk := range tickers {
					if tk == t.Conversion {
						total[ti] += out
						vrt.Assume(out < vrtMaxBal && total[ti] < vrtMaxBal)
					}
				}
			}
		}
	}
	// history rows of the entry, as ApplyTransactionBlock writes them on arrival
	entryHeight := height
	if hasConv {
		entryHeight = height - 1
	}
	if err := d.Pegnet.InsertTransactionHistoryTxBatch(tx, 0, batch, entryHeight); err != nil {
		panic("history insert: " + err.Error())
	}

	pre := make([][]int64, len(allAddrs))
	preSum := make([]int64, len(tickers))
	for ai, a := range allAddrs {
		pre[ai] = make([]int64, len(tickers))
		for ti, t := range tickers {
			pre[ai][ti] = vrtBalance(tx, a, t)
		}
	}
	for ti, t := range tickers {
		preSum[ti] = vrtSum(tx, t)
	}
	snap0 := vrt.Snapshot(tx)

	// ================= code under test =================
	err = d.applyTransactionBatch(tx, batch, rates, avgs, height)
	// ====================================================

	code, uerr := pegnet.IsRejectedTx(err)
	snap1 := vrt.Snapshot(tx)
	executed := vrtExecuted(tx, batch.Entry.Hash)
	vrt.ObserveI64("code", code)
	vrt.ObserveI64("executed", executed)

	if uerr != nil {
		// an error that fails the whole block: the caller rolls the block back.
		// No C03 claim here; C08 owns "a block must not be unsyncable".
		vrt.Cover("block-error")
		vrt.ObserveStr("block-error", uerr.Error())
		// Known finding D15 (closed era [PEG conversion limit, 2.0)): the funds pre-check credits a
		// PEG request's output at once while recordBatch defers it to the request pass, so a batch
		// that spends the not-yet-paid PEG passes the pre-check and fails in the middle of its writes.
		d15 := false
		if height >= specConvLimit && height < specV20 && len(batch.Transactions) > 1 {
			for _, t := range batch.Transactions {
				if t.IsConversion() && t.Conversion == fat2.PTickerPEG {
					d15 = true
				}
			}
		}
		if d15 {
			vrt.Assert("C08.valid-batch-never-fails-the-block@D15", false)
		} else {
			vrt.Assert("C08.valid-batch-never-fails-the-block", false)
		}
		return
	}
	if code < 0 {
		vrt.Cover("rejected")
		vrt.Assert("C03.rejected-no-effect", vrt.SameStore(snap0, snap1))
		vrt.Assert("C17.rejected-status-means-the-batch-changed-nothing", vrt.SameStore(snap0, snap1))
		vrt.Assert("C17.rejected-not-marked-executed", executed == 0)
		return
	}
	if executed == 0 {
		// nil return without execution: the silent drop of an unconvertible amount
		vrt.Cover("dropped")
		vrt.Assert("C03.dropped-no-effect", vrt.SameStore(snap0, snap1))
		return
	}
	vrt.Cover("executed")
	vrt.Assert("C17.executed-height", executed == int64(height))

	// ---- reference semantics: transactions execute in order, each against the
	// balance at that moment
	exp := make([][]uint64, len(allAddrs))
	for ai := range allAddrs {
		exp[ai] = make([]uint64, len(tickers))
		for ti := range tickers {
			exp[ai][ti] = uint64(pre[ai][ti])
		}
	}
	expSum := make([]uint64, len(tickers))
	for ti := range tickers {
		expSum[ti] = uint64(preSum[ti])
	}
	tidx := func(t fat2.PTicker) int {
		for i, x := range tickers {
			if x == t {
				return i
			}
		}
		panic("ticker outside pool")
	}
	aidx := func(a factom.FAAddress) int {
		for i, x := range allAddrs {
			if x == a {
				return i
			}
		}
		panic("address outside pool")
	}
	for k, t := range batch.Transactions {
		si := tidx(t.Input.Type)
		vrt.Assert("C03.funded-at-execution", exp[0][si] >= t.Input.Amount)
		exp[0][si] -= t.Input.Amount
		expSum[si] -= t.Input.Amount
		if t.IsConversion() {
			di := tidx(t.Conversion)
			if height >= specConvLimit && t.Conversion == fat2.PTickerPEG {
				// bank-limited era: the PEG side is paid by the request pass (C16)
				continue
			}
			out, ok := vrtRefConvert(height, t.Input.Amount, rates[t.Input.Type], avgs[t.Input.Type], rates[t.Conversion], avgs[t.Conversion])
			vrt.Assert("C07.executed-conversion-is-computable", ok)
			exp[0][di] += out
			expSum[di] += out
			vrt.Assert("C17.converted-amount-recorded", vrtToAmount(tx, batch.Entry.Hash, k) == int64(out))
		} else {
			// an executed transfer moves exactly its input: the outputs add up to it as
			// mathematical integers (a sum that only matches modulo 2^64 would create supply)
			outs := new(big.Int)
			for _, tr := range t.Transfers {
				outs.Add(outs, new(big.Int).SetUint64(tr.Amount))
			}
			vrt.Assert("C04.executed-transfer-outputs-add-up-to-its-input", outs.Cmp(new(big.Int).SetUint64(t.Input.Amount)) == 0)
			// read as C03: what an executed transfer pays out is covered by what it debits
			vrt.Assert("C03.executed-transfer-pays-out-no-more-than-it-debits", outs.Cmp(new(big.Int).SetUint64(t.Input.Amount)) <= 0)
			for _, tr := range t.Transfers {
				if height >= specV202 && tr.Address == burn {
					continue // burned: debited, credited to nobody
				}
				exp[aidx(tr.Address)][si] += tr.Amount
				expSum[si] += tr.Amount
			}
		}
	}
	// Known finding D18 (closed era): before 2.0.2 the "burn address" compared against is
	// the zero value, so an output to the all-zero address is debited and credited to nobody.
	d18 := false
	if height < specV202 {
		for _, t := range batch.Transactions {
			for _, tr := range t.Transfers {
				if tr.Address == zero && tr.Amount > 0 {
					d18 = true
				}
			}
		}
	}
	for ai, a := range allAddrs {
		for ti, t := range tickers {
			post := vrtBalance(tx, a, t)
			vrt.Assert("C03.no-negative-balance", post >= 0)
			if ai == 2 {
				vrt.Assert("C04.bystander-untouched", post == pre[ai][ti])
			} else if d18 && ai == 4 {
				vrt.Assert("C04.credited-to-recipient@D18", uint64(post) == exp[ai][ti])
			} else {
				vrt.Assert("C03.exact-effects", uint64(post) == exp[ai][ti])
				if hasConv {
					// read as C07: every conversion of the batch is credited by the formula at the
					// rates of ITS OWN assets
					vrt.Assert("C07.every-conversion-of-a-batch-follows-the-formula", uint64(post) == exp[ai][ti])
				}
				vrt.Assert("C04.credited-to-recipient", uint64(post) == exp[ai][ti])
			}
		}
	}
	for ti, t := range tickers {
		if d18 {
			vrt.Assert("C04.supply-delta@D18", uint64(vrtSum(tx, t)) == expSum[ti])
		} else {
			vrt.Assert("C04.supply-delta", uint64(vrtSum(tx, t)) == expSum[ti])
		}
	}
	// handle discipline (C02b): nothing was written around the block transaction
	vrt.Assert("C02.no-write-outside-block-tx", vrt.Monitor("db-write-during-tx") == 0)
}

func vrtSum(q vrtExecer, t fat2.PTicker) int64 {
	var v int64
	if err := q.QueryRow(`SELECT IFNULL(SUM(` + vrtTickerCol(t) + `), 0) FROM pn_addresses`).Scan(&v); err != nil {
		panic("vrtSum: " + err.Error())
	}
	return v
}

func vrtExecuted(q vrtExecer, h *factom.Bytes32) int64 {
	var v int64
	if err := q.QueryRow(`SELECT executed FROM pn_history_txbatch WHERE entry_hash = ?`, h[:]).Scan(&v); err != nil {
		panic("vrtExecuted: " + err.Error())
	}
	return v
}

func vrtToAmount(q vrtExecer, h *factom.Bytes32, idx int) int64 {
	var v int64
	if err := q.QueryRow(`SELECT to_amount FROM pn_history_transaction WHERE entry_hash = ? AND tx_index = ?`, h[:], idx).Scan(&v); err != nil {
		panic("vrtToAmount: " + err.Error())
	}
	return v
}
