package node

import (
	"context"
	"encoding/json"
	"time"

	"github.com/Factom-Asset-Tokens/factom"
	"github.com/pegnet/pegnet/modules/grader"
	"github.com/pegnet/pegnet/modules/graderStake"
	"github.com/pegnet/pegnetd/config"
	"github.com/pegnet/pegnetd/fat/fat2"
	"github.com/pegnet/pegnetd/zzverif/vrt"
)

// H-gradeglue: the repo's glue around the grader dependency (Grade / GradeS): grader version
// by height, previous winners, which entries are handed to the grader (top PEG holders only
// for staking records), and robustness against entries with any number of external ids.
// The graders themselves are stubbed: they record what they are given.

const (
	fxNewGrader  = "github.com/pegnet/pegnet/modules/grader.NewGrader"
	fxNewGraderS = "github.com/pegnet/pegnet/modules/graderStake.NewGrader"
)

type vrtOPRGrader struct {
	version uint8
	height  int32
	prev    []string
	hashes  [][]byte
	added   [][][]byte // ext ids of every record handed over
	verdict grader.GradedBlock
}

func (g *vrtOPRGrader) Height() int32                { return g.height }
func (g *vrtOPRGrader) Version() uint8               { return g.version }
func (g *vrtOPRGrader) GetPreviousWinners() []string { return g.prev }
func (g *vrtOPRGrader) AddOPR(entryhash []byte, extids [][]byte, content []byte) error {
	g.added = append(g.added, extids)
	g.hashes = append(g.hashes, entryhash)
	return nil
}
func (g *vrtOPRGrader) Grade() grader.GradedBlock                 { return g.verdict }
func (g *vrtOPRGrader) GradeCustom(cutoff int) grader.GradedBlock { return g.verdict }
func (g *vrtOPRGrader) Count() int                                { return len(g.added) }
func (g *vrtOPRGrader) Payout(index int) int64                    { return 0 }

type vrtSPRGrader struct {
	version uint8
	height  int32
	added   [][][]byte
	hashes  [][]byte // entry hashes in the order they were handed over
	verdict graderStake.GradedBlock
}

func (g *vrtSPRGrader) Height() int32                { return g.height }
func (g *vrtSPRGrader) Version() uint8               { return g.version }
func (g *vrtSPRGrader) GetPreviousWinners() []string { return nil }
func (g *vrtSPRGrader) AddSPR(entryhash []byte, extids [][]byte, content []byte) error {
	g.added = append(g.added, extids)
	g.hashes = append(g.hashes, entryhash)
	return nil
}
func (g *vrtSPRGrader) Grade() graderStake.GradedBlock                 { return g.verdict }
func (g *vrtSPRGrader) GradeCustom(cutoff int) graderStake.GradedBlock { return g.verdict }
func (g *vrtSPRGrader) Count() int                                     { return len(g.added) }
func (g *vrtSPRGrader) Payout(index int) int64                         { return 0 }

func vrtSpecOPRVersion(h uint32) uint8 {
	switch {
	case h >= specV20:
		return 5
	case h >= specV4:
		return 4
	case h >= specFreeFloat:
		return 3
	case h >= 210330: // GradingV2Activation
		return 2
	}
	return 1
}

func vrtSpecSPRVersion(h uint32) uint8 {
	switch {
	case h >= specV202:
		return 7
	case h >= specSprSig:
		return 6
	}
	return 5
}

func VerifGradeGlue() {
	d, db := vrtNode(false)
	ctx := context.Background()
	staking := vrt.Choose("chain", 2) == 1
	height := uint32(vrt.Range("height", 206422, 400000))
	// holders: H1 holds PEG, H2 holds none - or (two top holders) some as well
	H1, H2 := vrtAddr(0xA1), vrtAddr(0xB2)
	h2holds := vrt.Param("twoholders", 1) == 1 && vrt.Choose("h2holds", 2) == 1
	tx0, _ := db.Begin()
	vrtSetBalance(tx0, H1, fat2.PTickerPEG, vrt.URange("peg1", 1, vrtMaxBal/4))
	if h2holds {
		vrtSetBalance(tx0, H2, fat2.PTickerPEG, vrt.URange("peg2", 1, vrtMaxBal/4))
	} else {
		vrtSetBalance(tx0, H2, fat2.PTickerPEG, 0)
	}
	if err := tx0.Commit(); err != nil {
		panic(err)
	}
	// an earlier graded block whose winners must be handed to the OPR grader
	hasPrev := vrt.Choose("prevGraded", 2) == 1
	prevWinners := []string{"aa", "bb"}
	if hasPrev {
		data, _ := json.Marshal(prevWinners)
		// the last graded block is the parent block - or an older one (directory blocks without an
		// OPR entry block in between leave no row)
		prevAt := height - 1 - uint32(vrt.Choose("blocksWithoutOPRsInBetween", 2))
		if _, err := db.Exec("INSERT INTO pn_grade (height, keymr, prevkeymr, eb_seq, shorthashes, version, cutoff, count) VALUES ($1, $2, $3, $4, $5, $6, $7, $8)",
			prevAt, []byte{1}, []byte{2}, 1, data, 1, 50, 2); err != nil {
			panic(err)
		}
	}
	// the block: 1..2 entries with an arbitrary number of external ids
	eb := new(factom.EBlock)
	chain := config.OPRChain
	if staking {
		chain = config.SPRChain
	}
	eb.ChainID = &chain
	eb.Height = height
	eb.Timestamp = time.Unix(1600000000, 0)
	n := 1 + vrt.Choose("nentries", 2)
	nIDs := make([]int, n)
	declared := make([]int, n) // 0: H1, 1: H2, 2: something else
	for i := 0; i < n; i++ {
		var e factom.Entry
		e.ChainID = &chain
		e.Hash = vrtHash(byte(0x50 + i))
		e.Content = []byte{1, 2, 3}
		nIDs[i] = vrt.Choose("nExtIDs", 4) // 0..3 external ids
		declared[i] = vrt.Choose("declaredStaker", 3)
		for k := 0; k < nIDs[i]; k++ {
			id := []byte{byte(0xE0 + k)}
			if k == 1 {
				switch declared[i] {
				case 0:
					id = append([]byte{}, H1[:]...)
				case 1:
					id = append([]byte{}, H2[:]...)
				}
			}
			e.ExtIDs = append(e.ExtIDs, id)
		}
		eb.Entries = append(eb.Entries, e)
	}
	og := new(vrtOPRGrader)
	sg := new(vrtSPRGrader)
	vrt.Stub(fxNewGrader, func(version uint8, h int32, prev []string) (grader.BlockGrader, error) {
		og.version, og.height, og.prev = version, h, prev
		return og, nil
	})
	vrt.Stub(fxNewGraderS, func(version uint8, h int32) (graderStake.BlockGrader, error) {
		sg.version, sg.height = version, h
		return sg, nil
	})
	// the graders are order-sensitive (first record per address, first 50 records, stable sorts):
	// records must reach them in chain order, whatever order a map iteration takes (order oracle)
	vrt.Permute(true)
	if staking {
		vrt.Cover("staking")
		_, err := d.GradeS(ctx, eb)
		vrt.Permute(false)
		vrt.Assert("C11.staking-grading-glue-succeeds", err == nil)
		vrt.Assert("C11.staking-grader-version-by-height", sg.version == vrtSpecSPRVersion(height) && sg.height == int32(height))
		// only records whose declared staker is a top PEG holder are graded
		want := 0
		var wantHashes [][]byte
		for i := 0; i < n; i++ {
			if nIDs[i] >= 2 && (declared[i] == 0 || (declared[i] == 1 && h2holds)) {
				want++
				wantHashes = append(wantHashes, eb.Entries[i].Hash[:])
			}
		}
		vrt.Assert("C11.only-top-holder-records-are-graded", len(sg.added) == want)
		for _, ex := range sg.added {
			vrt.Assert("C11.only-top-holder-records-are-graded", len(ex) >= 2 && (string(ex[1]) == string(H1[:]) || (h2holds && string(ex[1]) == string(H2[:]))))
		}
		for i := 0; i < len(sg.hashes) && i < len(wantHashes); i++ {
			vrt.Assert("C01.records-reach-the-grader-in-chain-order", string(sg.hashes[i]) == string(wantHashes[i]))
		}
		// ---- the next block, graded by the SAME daemon right away (as in a catch-up replay): the
		// ledger has moved - H1 holds nothing any more, H2 does. Who is a top holder is a fact of
		// the ledger as of this block, not of what the process saw a moment ago.
		tx1, _ := db.Begin()
		vrtSetBalance(tx1, H1, fat2.PTickerPEG, 0)
		vrtSetBalance(tx1, H2, fat2.PTickerPEG, 5)
		if err := tx1.Commit(); err != nil {
			panic(err)
		}
		sg.added, sg.hashes = nil, nil
		eb.Height = height + 1
		_, err = d.GradeS(ctx, eb)
		vrt.Assert("C11.staking-grading-glue-succeeds", err == nil)
		want2 := 0
		for i := 0; i < n; i++ {
			if nIDs[i] >= 2 && declared[i] == 1 {
				want2++
			}
		}
		vrt.Assert("C11.only-top-holder-records-are-graded", len(sg.added) == want2)
		vrt.Assert("C01.top-holder-filter-follows-the-ledger-not-the-process-history", len(sg.added) == want2)
		for _, ex := range sg.added {
			vrt.Assert("C11.only-top-holder-records-are-graded", len(ex) >= 2 && string(ex[1]) == string(H2[:]))
			vrt.Assert("C01.top-holder-filter-follows-the-ledger-not-the-process-history", len(ex) >= 2 && string(ex[1]) == string(H2[:]))
		}
	} else {
		vrt.Cover("mining")
		_, err := d.Grade(ctx, eb)
		vrt.Permute(false)
		for i := 0; i < len(og.hashes) && i < n; i++ {
			vrt.Assert("C01.records-reach-the-grader-in-chain-order", string(og.hashes[i]) == string(eb.Entries[i].Hash[:]))
		}
		vrt.Assert("C11.mining-grading-glue-succeeds", err == nil)
		vrt.Assert("C11.mining-grader-version-by-height", og.version == vrtSpecOPRVersion(height) && og.height == int32(height))
		vrt.Assert("C11.every-opr-entry-is-offered-to-the-grader", len(og.added) == n)
		if hasPrev {
			vrt.Assert("C11.previous-winners-from-last-graded-block", len(og.prev) == 2 && og.prev[0] == "aa" && og.prev[1] == "bb")
		} else {
			vrt.Assert("C11.previous-winners-from-last-graded-block", len(og.prev) == 0)
		}
	}
}

// vrtValidatingSPRGrader admits a record exactly when the dependency's own record validation
// (graderStake.ValidateS2/S3; ideal-signature model under the symbolic engine) accepts it.
type vrtValidatingSPRGrader struct {
	vrtSPRGrader
	admitted [][][]byte
}

func (g *vrtValidatingSPRGrader) AddSPR(entryhash []byte, extids [][]byte, content []byte) error {
	g.added = append(g.added, extids)
	if !vrt.ValidateSPR(g.version, g.height, entryhash, extids, content) {
		return vrtErrInvalidSPR
	}
	g.admitted = append(g.admitted, extids)
	return nil
}

type vrtErr string

func (e vrtErr) Error() string { return string(e) }

const vrtErrInvalidSPR = vrtErr("invalid staking record")

// VerifStakerBinding: C11 "staking records not signed by the key of one of the top PEG holders
// pay nothing". One staking record reaches the real GradeS; it names a staker id and is signed
// by a key. It may enter the graded set only if the NAMED staker is a top holder AND the record
// is signed by THAT holder's key.
func VerifStakerBinding() {
	d, db := vrtNode(false)
	ctx := context.Background()
	height := uint32(vrt.Range("height", int64(specSprSig), 400000)) // staking records are signed from here on
	holder := vrt.KeyAddress(0, false)                                // a top holder; key 0 is its key
	nobody := vrt.KeyAddress(1, false)                                // holds no PEG; key 1 is its key
	tx0, _ := db.Begin()
	vrtSetBalance(tx0, holder, fat2.PTickerPEG, vrt.URange("peg", 1, vrtMaxBal/4))
	vrtSetBalance(tx0, nobody, fat2.PTickerPEG, 0)
	if err := tx0.Commit(); err != nil {
		panic(err)
	}
	declaredHolder := vrt.Choose("declares", 2) == 0 // which address the record names as its staker
	signer := vrt.Choose("signedBy", 2)              // which key signs it
	declared := holder
	if !declaredHolder {
		declared = nobody
	}
	chain := config.SPRChain
	eb := new(factom.EBlock)
	eb.ChainID = &chain
	eb.Height = height
	eb.Timestamp = time.Unix(1600000000, 0)
	var e factom.Entry
	e.ChainID = &chain
	e.Hash = vrtHash(0x5A)
	vrt.MakeSPR(&e, vrtSpecSPRVersion(height), int32(height), declared[:], signer, nobody.String())
	eb.Entries = []factom.Entry{e}
	sg := new(vrtValidatingSPRGrader)
	vrt.Stub(fxNewGraderS, func(version uint8, h int32) (graderStake.BlockGrader, error) {
		sg.version, sg.height = version, h
		return sg, nil
	})
	_, err := d.GradeS(ctx, eb)
	vrt.Assert("C11.staking-grading-glue-succeeds", err == nil)
	byHolderKey := declaredHolder && signer == 0
	switch {
	case byHolderKey:
		vrt.Cover("holder-signed")
		vrt.Assert("C11.record-signed-by-a-top-holders-key-is-graded", len(sg.admitted) == 1)
	case declaredHolder:
		// Known finding D17: the declared staker id (ExtIDs[1]) is only looked up in the top-100
		// list; the signature is verified against the public key embedded in ExtIDs[2], and
		// nothing ties that key to the declared id. Anyone can name a top holder.
		vrt.Cover("names-a-holder-signed-by-another-key")
		vrt.Assert("C11.record-not-signed-by-a-top-holders-key-is-not-graded@D17", len(sg.admitted) == 0)
	default:
		vrt.Cover("names-no-holder")
		vrt.Assert("C11.record-not-signed-by-a-top-holders-key-is-not-graded", len(sg.admitted) == 0 && len(sg.added) == 0)
	}
}
