package node

import (
	"context"
	"database/sql"
	"time"

	"github.com/Factom-Asset-Tokens/factom"
	"github.com/pegnet/pegnet/modules/grader"
	"github.com/pegnet/pegnet/modules/graderStake"
	"github.com/pegnet/pegnetd/config"
	"github.com/pegnet/pegnetd/fat/fat2"
	"github.com/pegnet/pegnetd/zzverif/vrt"
)

// H-syncblock-fault: the real SyncBlock on a block WITH content (an OPR winner, an SPR winner,
// in-band rates, a conversion in holding, a transaction entry, holders to pay) at three heights,
// with the fault oracle: EVERY DB-API call of the block fails once. Either the block fails - the
// sync loop rolls it back and applies it again with the same daemon, and must then reach exactly
// the fault-free ledger - or the process ends (the averages routine panics on a failed read), or
// nothing differs from the fault-free run.   C10 (and C02/C06 read from the same facts)
func VerifSyncBlockFault() {
	AveragePeriod = 3
	AverageRequired = 1
	ctx := context.Background()
	heights := []uint32{222300, 274176, 295200} // bank era | 2.0.2 payout+snapshot height | PIP-10 payout height
	height := heights[vrt.Choose("height", len(heights))]
	blockTime := time.Unix(1600000000, 0)
	miner, staker, holder := vrtAddr(0xA1), vrtAddr(0xB2), vrtAddr(0xD4)
	converter := vrt.KeyAddress(0, false)
	he := vrtSignedConversion(vrtHash(0x4C), blockTime.Unix()-600, 1000, fat2.PTickerUSD, fat2.PTickerXBT, false)
	B := vrt.KeyAddress(1, false)
	te, _ := vrtMakeEntry(ekTransfer, vrtHash(0x4D), blockTime.Unix(), height, 700, B)

	setup := func(db *sql.DB) *Pegnetd {
		d := vrtNodeOn(db)
		d.Sync.Synced = height - 1
		tx0, _ := db.Begin()
		vrtSetBalance(tx0, holder, fat2.PTickerUSD, 1000000)
		vrtSetBalanceIn(tx0, "snapshot_current", holder, fat2.PTickerUSD, 1000000)
		vrtSetBalance(tx0, converter, fat2.PTickerUSD, 5000)
		for _, t := range []string{"PEG", "pUSD", "pXBT"} {
			if _, err := tx0.Exec("INSERT INTO pn_rate (height, token, value) VALUES ($1, $2, $3)", height-1, t, 100000000); err != nil {
				panic(err)
			}
		}
		if err := d.ApplyTransactionBlock(tx0, vrtEBlock(height-1, blockTime.Unix()-600, []factom.Entry{he})); err != nil {
			panic("held conversion: " + err.Error())
		}
		if err := tx0.Commit(); err != nil {
			panic(err)
		}
		return d
	}
	// ---- verdicts: one OPR winner, one SPR winner, rates equal (inside every band)
	rates := vrtAssets(200000000, 100000000, 300000000)
	ow := vrt.NewGradingOPR(vrtHash(0x61)[:], 5000, 0, &vrtRec{height: int32(height), addr: miner.String(), id: "miner", assets: rates})
	ov := &vrtGradedOPR{version: 5, winners: []*grader.GradingOPR{ow}}
	ov.graded = ov.winners
	sw := vrt.NewGradingSPR(vrtHash(0x62)[:], 6000, 0, &vrtSRec{vrtRec{height: int32(height), addr: staker.String(), id: "staker", assets: rates}})
	sv := &vrtGradedSPR{version: 7, winners: []*graderStake.GradingSPR{sw}}
	oprC, sprC, txC := config.OPRChain, config.SPRChain, config.TransactionChain
	vrt.Stub(fxFactomDBlock, func(b *factom.DBlock, c context.Context, cl *factom.Client) error {
		b.Timestamp = blockTime
		b.EBlocks = []factom.EBlock{
			{ChainID: &oprC, Height: height, KeyMR: vrtHash(0x71), PrevKeyMR: vrtHash(0x72)},
			{ChainID: &txC, Height: height, KeyMR: vrtHash(0x70), PrevKeyMR: vrtHash(0x76)},
		}
		if height >= specV20 {
			b.EBlocks = append(b.EBlocks, factom.EBlock{ChainID: &sprC, Height: height, KeyMR: vrtHash(0x73), PrevKeyMR: vrtHash(0x74)})
		}
		return nil
	})
	fill := func(e *factom.EBlock) {
		if *e.ChainID == txC {
			e.Timestamp = blockTime
			e.Entries = []factom.Entry{te}
			return
		}
		var en factom.Entry
		en.ChainID = e.ChainID
		en.Hash = vrtHash(0x75)
		en.ExtIDs = []factom.Bytes{{1}, {2}, {3}}
		en.Content = factom.Bytes{4}
		e.Entries = []factom.Entry{en}
	}
	vrt.Stub(fxFactomEBlk, func(e *factom.EBlock, c context.Context, cl *factom.Client) error { fill(e); return nil })
	vrt.Stub(fxFactomEntry, func(e *factom.Entry, c context.Context, cl *factom.Client) error { return nil })
	vrt.Stub(fxFactomFBlock, func(fb *factom.FBlock, c context.Context, cl *factom.Client) error {
		fb.KeyMR = vrtHash(0x64)
		return nil
	})
	vrt.Stub(fxFactomFTx, func(t *factom.FactoidTransaction, c context.Context, cl *factom.Client) error { return nil })
	vrt.Stub(fxNewGrader, func(version uint8, h int32, prev []string) (grader.BlockGrader, error) {
		return &vrtOPRGrader{version: version, height: h, verdict: ov}, nil
	})
	vrt.Stub(fxNewGraderS, func(version uint8, h int32) (graderStake.BlockGrader, error) {
		return &vrtSPRGrader{version: version, height: h, verdict: sv}, nil
	})

	// ---- fault-free reference
	dbR := vrt.NewFaultDB()
	dR := setup(dbR)
	c0 := vrt.Monitor("dbcalls")
	txR, _ := dbR.Begin()
	errR := dR.SyncBlock(ctx, txR, height)
	nCalls := vrt.Monitor("dbcalls") - c0
	if errR != nil {
		panic("reference block failed: " + errR.Error())
	}
	if err := txR.Commit(); err != nil {
		panic(err)
	}
	vrt.Cover("reference-applied")
	// ---- the same block with one failing DB-API call
	dbF := vrt.NewFaultDB()
	dF := setup(dbF)
	vrt.FaultAt(vrt.Monitor("dbcalls") + vrt.Choose("point", nCalls))
	attempt := func() (err error, died bool) {
		defer func() {
			if r := recover(); r != nil {
				died = true
			}
		}()
		tx, berr := dbF.Begin()
		if berr != nil {
			return berr, false
		}
		if err = dF.SyncBlock(ctx, tx, height); err != nil {
			tx.Rollback()
			return err, false
		}
		return tx.Commit(), false
	}
	errF, died := attempt()
	if died {
		vrt.Cover("fault-ended-process")
		return
	}
	if errF == nil {
		vrt.Cover("fault-survived")
		same := vrt.SameStore(vrt.Snapshot(dbF), vrt.Snapshot(dbR))
		vrt.Assert("C10.block-with-a-failed-call-fails-or-is-complete", same)
		vrt.Assert("C02.block-reported-applied-holds-all-its-effects", same)
		return
	}
	vrt.Cover("fault-failed-block")
	err2, died2 := attempt()
	vrt.Assert("C10.retried-block-succeeds", err2 == nil && !died2)
	if err2 == nil && !died2 {
		same := vrt.SameStore(vrt.Snapshot(dbF), vrt.Snapshot(dbR))
		vrt.Assert("C10.retried-block-reaches-the-fault-free-ledger", same)
		vrt.Assert("C02.retried-block-holds-all-its-effects", same)
		vrt.Assert("C06.retried-block-considers-held-batches-exactly-as-the-first-attempt-would", same)
	}
}
