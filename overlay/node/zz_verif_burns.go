package node

import (
	"context"
	"time"

	"github.com/Factom-Asset-Tokens/factom"
	"github.com/pegnet/pegnetd/fat/fat2"
	"github.com/pegnet/pegnetd/zzverif/vrt"
)

// H-burns: C11, second sentence — "each valid FCT burn credits exactly the burned amount of
// pFCT to the burning address, once, and nothing else in a factoid block does". The real
// ApplyFactoidBlock runs over a factoid block (Factom requests stubbed) with two transactions
// of ARBITRARY shape: 0..2 FCT inputs, 0..1 FCT outputs, 0..2 EC outputs, EC output to the burn
// address or elsewhere, EC amount 0 or not.
func VerifBurns() {
	d, db := vrtNode(false)
	ctx := context.Background()
	height := uint32(vrt.Range("height", 206422, int64(specV20)-1))
	P, Q, R := vrtAddr(0xC1), vrtAddr(0xC2), vrtAddr(0xC3)
	people := []factom.FAAddress{P, Q, R}
	tx0, _ := db.Begin()
	pre := make([]uint64, len(people))
	for i, a := range people {
		pre[i] = vrt.URange("pre", 0, vrtMaxBal/8)
		vrtSetBalance(tx0, a, fat2.PTickerFCT, pre[i])
	}
	if err := tx0.Commit(); err != nil {
		panic(err)
	}
	var other [32]byte
	other[0] = 0x42
	type shape struct {
		nIn, nOut, nEC int
		toBurn         bool
		ecAmt          uint64
		from           int
		amt            uint64
	}
	nTx := 1 + vrt.Choose("ntx", 2)
	shapes := make([]shape, nTx)
	var txs []factom.FactoidTransaction
	for i := 0; i < nTx; i++ {
		s := shape{nIn: vrt.Choose("nIn", 3), nOut: vrt.Choose("nFCTOut", 2), nEC: vrt.Choose("nECOut", 3),
			toBurn: vrt.Choose("ecTo", 2) == 0, from: vrt.Choose("from", 2), amt: vrt.URange("amt", 0, vrtMaxBal/8)}
		if vrt.Choose("ecAmtZero", 2) == 1 {
			s.ecAmt = vrt.URange("ecAmt", 1, 1<<40)
		}
		shapes[i] = s
		var t factom.FactoidTransaction
		t.TransactionID = vrtHash(byte(0x80 + i))
		t.TimestampSalt = time.Unix(1580000000, 0)
		for k := 0; k < s.nIn; k++ {
			var io factom.FactoidTransactionIO
			io.Amount = s.amt
			a := people[(s.from+k)%2]
			copy(io.Address[:], a[:])
			t.FCTInputs = append(t.FCTInputs, io)
		}
		for k := 0; k < s.nOut; k++ {
			var io factom.FactoidTransactionIO
			io.Amount = 1
			copy(io.Address[:], R[:])
			t.FCTOutputs = append(t.FCTOutputs, io)
		}
		for k := 0; k < s.nEC; k++ {
			var io factom.FactoidTransactionIO
			io.Amount = s.ecAmt
			if s.toBurn && k == 0 {
				copy(io.Address[:], BurnRCD[:])
			} else {
				copy(io.Address[:], other[:])
			}
			t.ECOutputs = append(t.ECOutputs, io)
		}
		txs = append(txs, t)
	}
	vrt.Stub(fxFactomFBlock, func(fb *factom.FBlock, c context.Context, cl *factom.Client) error {
		fb.Transactions = txs
		fb.KeyMR = vrtHash(0x64)
		return nil
	})
	vrt.Stub(fxFactomFTx, func(t *factom.FactoidTransaction, c context.Context, cl *factom.Client) error { return nil })
	dblock := new(factom.DBlock)
	dblock.Height = height
	tx, _ := db.Begin()
	err := d.ApplyFactoidBlock(ctx, tx, dblock)
	vrt.Assert("C08.factoid-block-never-fails-the-block", err == nil)
	if err != nil {
		return
	}
	// ---- specification
	exp := append([]uint64{}, pre...)
	nBurns := 0
	for _, s := range shapes {
		if s.nIn == 1 && s.nOut == 0 && s.nEC == 1 && s.toBurn && s.ecAmt == 0 {
			exp[s.from%2] += s.amt
			nBurns++
		}
	}
	if nBurns > 0 {
		vrt.Cover("burn")
	} else {
		vrt.Cover("no-burn")
	}
	for i, a := range people {
		vrt.Assert("C11.only-a-valid-fct-burn-credits-pfct-and-exactly-the-burned-amount", uint64(vrtBalance(tx, a, fat2.PTickerFCT)) == exp[i])
		// read as C04: an FCT burn is one of the enumerated supply events - pFCT supply grows by exactly
		// the burned amount, on the burner's address, and by nothing else in the factoid block
		vrt.Assert("C04.fct-burn-creates-exactly-the-burned-amount-for-the-burner", uint64(vrtBalance(tx, a, fat2.PTickerFCT)) == exp[i])
		vrt.Assert("C11.fct-burn-touches-no-other-asset", vrtBalance(tx, a, fat2.PTickerPEG) == 0 && vrtBalance(tx, a, fat2.PTickerUSD) == 0)
	}
	var rows int
	if qerr := tx.QueryRow(`SELECT COUNT(*) FROM pn_history_txbatch`).Scan(&rows); qerr != nil {
		panic(qerr)
	}
	vrt.Assert("C17.one-history-record-per-fct-burn", rows == nBurns)
	vrt.Assert("C02.no-write-outside-block-tx", vrt.Monitor("db-write-during-tx") == 0)
}
