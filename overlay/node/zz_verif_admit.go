package node

import (
	"time"

	"github.com/pegnet/pegnetd/fat/fat2"
	"github.com/pegnet/pegnetd/node/pegnet"
	"github.com/pegnet/pegnetd/zzverif/vrt"
)

// VerifAdmit: C13 — which single conversions are executed at which height.
// One conversion src->dst through the real applyTransactionBatch; src/dst range over
// the asset matrix selected by the parameters, height/amount/balance/rates/averages symbolic.
func VerifAdmit() {
	d, db := vrtNode(false)
	A := vrtAddr(0xA1)
	mode := vrt.Param("matrix", 0) // 0: 3 sources x all dst + all sources x 3 dst ; 1: full ; 2: shard (src = shard)
	nT := int(fat2.PTickerMax) - 1
	special := []fat2.PTicker{fat2.PTickerPEG, fat2.PTickerUSD, fat2.PTickerFCT}
	var src, dst fat2.PTicker
	switch mode {
	case 0:
		if vrt.Choose("side", 2) == 0 {
			src = special[vrt.Choose("src3", 3)]
			dst = fat2.PTicker(1 + vrt.Choose("dst", nT))
		} else {
			src = fat2.PTicker(1 + vrt.Choose("src", nT))
			dst = special[vrt.Choose("dst3", 3)]
		}
	case 1:
		src = fat2.PTicker(1 + vrt.Choose("src", nT))
		dst = fat2.PTicker(1 + vrt.Choose("dst", nT))
	default:
		src = fat2.PTicker(vrt.Param("srcshard", 1))
		dst = fat2.PTicker(1 + vrt.Choose("dst", nT))
	}
	vrt.Assume(src != dst)

	height := vrt.U32("height")
	vrt.Assume(height >= specTxActivation)
	// caller guarantee: from 2.0 on, conversions into PEG are rejected before this point
	// (ValidatePegTx in the holding pass — checked by the holding harness)
	if dst == fat2.PTickerPEG {
		vrt.Assume(height < specV20)
	}
	amt := vrt.URange("amt", 0, vrtMaxBal)
	bal := vrt.URange("bal", 0, vrtMaxBal)
	dbal := vrt.URange("dstbal", 0, vrtMaxBal)
	rs, rd := vrt.U64("rateSrc"), vrt.U64("rateDst")
	as, ad := vrt.U64("avgSrc"), vrt.U64("avgDst")
	rates := map[fat2.PTicker]uint64{src: rs, dst: rd}
	avgs := map[fat2.PTicker]uint64{src: as, dst: ad}
	out, computable := vrtRefConvert(height, amt, rs, as, rd, ad)
	if computable {
		vrt.Assume(out < vrtMaxBal)
	}

	batch := new(fat2.TransactionBatch)
	batch.Version = 1
	batch.Entry.Hash = vrtHash(1)
	batch.Entry.Timestamp = time.Unix(1600000000, 0)
	// the conversion is the only transaction of its batch, or follows a small transfer of the
	// same asset by the same address (every transaction of a batch is subject to the same rules)
	B := vrtAddr(0xB2)
	var pre uint64
	if vrt.Param("positions", 2) == 2 && vrt.Choose("position", 2) == 1 {
		pre = vrt.URange("pre", 1, 1000)
		var t0 fat2.Transaction
		t0.Input.Address = A
		t0.Input.Type = src
		t0.Input.Amount = pre
		t0.Transfers = []fat2.AddressAmountTuple{{Address: B, Amount: pre}}
		batch.Transactions = append(batch.Transactions, t0)
	}
	var t fat2.Transaction
	t.Input.Address = A
	t.Input.Type = src
	t.Input.Amount = amt
	t.Conversion = dst
	batch.Transactions = append(batch.Transactions, t)
	vrt.Assume(batch.ValidData() == nil)

	tx, err := db.Begin()
	if err != nil {
		panic(err)
	}
	vrtSetBalance(tx, A, src, bal)
	vrtSetBalance(tx, A, dst, dbal)
	if err := d.Pegnet.InsertTransactionHistoryTxBatch(tx, 0, batch, height-1); err != nil {
		panic(err)
	}
	snap0 := vrt.Snapshot(tx)

	err = d.applyTransactionBatch(tx, batch, rates, avgs, height)

	code, uerr := pegnet.IsRejectedTx(err)
	snap1 := vrt.Snapshot(tx)
	vrt.ObserveI64("code", code)
	if uerr != nil {
		vrt.Cover("block-error")
		vrt.Assert("C13.no-block-error-on-single-conversion", false)
		return
	}
	// ---- specification (rule order as documented in node/pegnet/errors.go)
	var want int64 = 1
	switch {
	case amt > bal || pre > bal:
		want = -1 // a transaction that the stored balance cannot cover on its own
	case rs == 0 || rd == 0:
		want = -4
	case height >= specOneWayFCT && dst == fat2.PTickerFCT:
		want = -3
	case height >= specOneWaySmall && (dst == fat2.PTickerPEG || vrtIsSmallCap(dst)):
		want = -5
	}
	postS, postD := vrtBalance(tx, A, src), vrtBalance(tx, A, dst)
	if want < 0 {
		vrt.Cover("must-reject")
		vrt.Assert("C13.forbidden-conversion-rejected-with-code", code == want)
		vrt.Assert("C13.rejected-leaves-store-untouched", vrt.SameStore(snap0, snap1))
		return
	}
	if !computable {
		// zero/unavailable average under PIP-10, or a result outside int64: not executed, no effect
		vrt.Cover("must-drop")
		vrt.Assert("C13.unconvertible-not-executed", code == 1 && vrt.SameStore(snap0, snap1))
		return
	}
	if amt+pre > bal {
		// each transaction is covered on its own, the batch as a whole is not (checked after the
		// admission rules, as the routine documents)
		vrt.Cover("must-reject")
		vrt.Assert("C13.forbidden-conversion-rejected-with-code", code == -1)
		vrt.Assert("C13.rejected-leaves-store-untouched", vrt.SameStore(snap0, snap1))
		return
	}
	vrt.Cover("must-execute")
	vrt.Assert("C13.allowed-conversion-executed", code == 1 && vrtExecuted(tx, batch.Entry.Hash) == int64(height))
	vrt.Assert("C13.source-debited", uint64(postS) == bal-amt-pre)
	if height >= specConvLimit && dst == fat2.PTickerPEG {
		vrt.Assert("C13.peg-side-deferred-to-bank-pass", uint64(postD) == dbal)
	} else {
		vrt.Assert("C13.destination-credited-floor", uint64(postD) == dbal+out)
	}
}
