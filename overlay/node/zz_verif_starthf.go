package node

import (
	"context"
	"database/sql"
	"encoding/json"

	"github.com/pegnet/pegnetd/config"
	"github.com/pegnet/pegnetd/node/pegnet"
	"github.com/pegnet/pegnetd/zzverif/vrt"
	"github.com/spf13/viper"
)

// H-start-hardfork: C19 through the daemon's own start-up path. The miniature chain of
// VerifHardfork (pegnet package: CheckHardForks called directly) is replayed with every start of a
// build being NewPegnetd's body (regenerated from the current node/node.go): legacy era, an
// upgrade start, tracked era with an optional further restart - intermediate starts with or
// without --no-hf (a refused start without it ends the history) - and finally a regular start of
// build `cur`, which must be refused exactly for a bad history. What the start-up path does around
// CheckHardForks (calling it at all, in which order, with which override) is part of the code
// under test here.
func vrtStartBuild(db *sql.DB, nohf bool) (*Pegnetd, error) {
	conf := viper.New()
	conf.Set(config.DisableHardForkCheck, nohf)
	return vrtStartDaemon(context.Background(), conf, db)
}

func VerifStartHardfork() {
	db := vrt.NewDB()
	if _, err := vrtStartBuild(db, false); err != nil { // first start on an empty database: creates the tables
		panic("fresh start: " + err.Error())
	}
	if vrtStartExtracted {
		vrt.Cover("real-start-up-code")
	}
	p := &pegnet.Pegnet{DB: db}
	smax := vrt.Param("smax", 4)
	nforks := vrt.Param("nforks", 2)
	S := vrt.Choose("S", smax+1)
	L := vrt.Choose("L", S+1)
	cur := int(vrt.Range("current", 0, 4))
	forks := []pegnet.ForkEvent{{ActivationHeight: 0, MinimumVersion: -1}}
	fh := make([]uint32, nforks)
	fm := make([]int, nforks)
	for i := 0; i < nforks; i++ {
		fh[i] = uint32(vrt.Range("forkHeight", 1, int64(smax)))
		fm[i] = int(vrt.Range("forkMin", -1, 4))
		forks = append(forks, pegnet.ForkEvent{ActivationHeight: fh[i], MinimumVersion: fm[i]})
	}
	pegnet.Hardforks = forks
	ver := make([]int, S+1)
	if L > 0 {
		data, err := json.Marshal(&pegnet.BlockSync{Synced: uint32(L)})
		if err != nil {
			panic(err)
		}
		if _, err := db.Exec("REPLACE INTO pn_metadata (name, value) VALUES ($1, $2)", "synced", data); err != nil {
			panic(err)
		}
		for h := 1; h <= L; h++ {
			ver[h] = -1
		}
	}
	// an intermediate start: with --no-hf the daemon runs whatever the check says; without it a refusal
	// ends this history (nothing further is synced by that build)
	start := func() bool {
		nohf := vrt.Choose("noHardForkCheck", 2) == 1
		_, err := vrtStartBuild(db, nohf)
		return err == nil
	}
	if L > 0 && L < S {
		pegnet.PegnetdSyncVersion = int(vrt.Range("upgradeVersion", 0, 4))
		if !start() {
			return
		}
	}
	extra := -1
	if S > L+1 && vrt.Param("midstart", 1) == 1 {
		extra = L + 1 + vrt.Choose("midstart", S-L)
	}
	for h := L + 1; h <= S; h++ {
		ver[h] = int(vrt.Range("version", 0, 4))
		pegnet.PegnetdSyncVersion = ver[h]
		tx, err := db.Begin()
		if err != nil {
			panic(err)
		}
		if err := p.InsertSynced(tx, &pegnet.BlockSync{Synced: uint32(h)}); err != nil {
			panic("InsertSynced: " + err.Error())
		}
		if err := tx.Commit(); err != nil {
			panic(err)
		}
		if h == extra && h < S {
			if !start() {
				return
			}
		}
	}
	// ================= code under test: a regular start of build `cur` =================
	pegnet.PegnetdSyncVersion = cur
	_, err := vrtStartBuild(db, false)
	// =====================================================================================
	refused := err != nil
	want := false
	for i := 0; i < nforks; i++ {
		for h := 1; h <= S; h++ {
			want = vrt.OrB(want, vrt.AndB(uint32(h) >= fh[i], ver[h] < fm[i]))
		}
	}
	for h := L + 1; h <= S; h++ {
		want = vrt.OrB(want, ver[h] > cur)
	}
	if refused {
		vrt.Cover("refused")
	} else {
		vrt.Cover("accepted")
	}
	vrt.Assert("C19.start-refused-iff-bad-history", refused == want)
}
