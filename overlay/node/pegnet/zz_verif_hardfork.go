package pegnet

import (
	"context"
	"encoding/json"

	"github.com/pegnet/pegnetd/zzverif/vrt"
)

// VerifHardfork: C19 — CheckHardForks on databases produced "through real commits"
// (InsertSynced per height, with the build version of the session that synced it),
// for legacy (pre-tracking) prefixes, symbolic fork placement and symbolic versions.
func VerifHardfork() {
	p := &Pegnet{DB: vrt.NewDB()}
	if err := p.createTables(); err != nil {
		panic(err)
	}
	smax := vrt.Param("smax", 4)
	nforks := vrt.Param("nforks", 2)
	S := vrt.Choose("S", smax+1)  // synced height (miniature chain: blocks 1..S)
	L := vrt.Choose("L", S+1)     // heights 1..L were synced by a build predating version tracking
	cur := int(vrt.Range("current", 0, 4))

	// fork table: the always-valid base entry plus symbolic forks above genesis
	forks := []ForkEvent{{0, -1}}
	fh := make([]uint32, nforks)
	fm := make([]int, nforks)
	for i := 0; i < nforks; i++ {
		fh[i] = uint32(vrt.Range("forkHeight", 1, int64(smax)))
		fm[i] = int(vrt.Range("forkMin", -1, 4))
		forks = append(forks, ForkEvent{ActivationHeight: fh[i], MinimumVersion: fm[i]})
	}
	Hardforks = forks

	ver := make([]int, S+1)
	// --- legacy era: only the sync height is recorded
	if L > 0 {
		data, err := json.Marshal(&BlockSync{Synced: uint32(L)})
		if err != nil {
			panic(err)
		}
		if _, err := p.DB.Exec("REPLACE INTO pn_metadata (name, value) VALUES ($1, $2)", "synced", data); err != nil {
			panic(err)
		}
		for h := 1; h <= L; h++ {
			ver[h] = -1
		}
	}
	// --- the upgraded build starts (its own start-up check runs; the operator may have
	// overridden a refusal, the back-filled rows stay either way)
	if L > 0 && L < S {
		PegnetdSyncVersion = int(vrt.Range("upgradeVersion", 0, 4))
		_ = p.CheckHardForks(p.DB)
	}
	// --- tracked era: every committed height records the version of the build that synced it
	extra := -1
	if S > L+1 && vrt.Param("midstart", 1) == 1 {
		extra = L + 1 + vrt.Choose("midstart", S-L) // a further restart after this height (or none: == S)
	}
	for h := L + 1; h <= S; h++ {
		ver[h] = int(vrt.Range("version", 0, 4))
		PegnetdSyncVersion = ver[h]
		tx, err := p.DB.Begin()
		if err != nil {
			panic(err)
		}
		if err := p.InsertSynced(tx, &BlockSync{Synced: uint32(h)}); err != nil {
			panic("InsertSynced: " + err.Error())
		}
		if err := tx.Commit(); err != nil {
			panic(err)
		}
		if h == extra && h < S {
			_ = p.CheckHardForks(p.DB)
		}
	}

	// ================= code under test: start-up of build `cur` =================
	PegnetdSyncVersion = cur
	err := p.CheckHardForks(p.DB)
	// ==============================================================================
	refused := err != nil

	// --- specification
	want := false
	for i := 0; i < nforks; i++ {
		for h := 1; h <= S; h++ {
			// a block at/above the fork was synced by too old a build
			want = vrt.OrB(want, vrt.AndB(uint32(h) >= fh[i], ver[h] < fm[i]))
		}
	}
	for h := L + 1; h <= S; h++ {
		want = vrt.OrB(want, ver[h] > cur) // downgrade
	}
	if refused {
		vrt.Cover("refused")
	} else {
		vrt.Cover("accepted")
	}
	vrt.ObserveI64("refused", vrt.IteI64(refused, 1, 0))
	// (D14, repaired by a fix: commit: a database synced by a pre-tracking build exactly
	// up to a fork height used to be accepted; the assertion below covers that shape too.)
	vrt.Assert("C19.refuse-iff-bad-history", refused == want)
	// the verdict is stable: asking again gives the same answer
	err2 := p.CheckHardForks(p.DB)
	vrt.Assert("C19.verdict-stable", (err2 != nil) == refused)
	// and the sync height survived
	if S > 0 {
		bs, serr := p.SelectSynced(context.Background(), p.DB)
		vrt.Assert("C19.sync-height-intact", serr == nil && bs != nil && bs.Synced == uint32(S))
	}
}
