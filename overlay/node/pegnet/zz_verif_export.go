package pegnet

// Exported doors for harnesses living in other packages (overlay only).

// VrtCreateTables runs the real createTables (DDL + migrations probes).
func (p *Pegnet) VrtCreateTables() error { return p.createTables() }
