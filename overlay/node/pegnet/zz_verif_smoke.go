package pegnet

import (
	"github.com/Factom-Asset-Tokens/factom"
	"github.com/pegnet/pegnetd/fat/fat2"
	"github.com/pegnet/pegnetd/zzverif/vrt"
)

func vrtAddr(k byte) factom.FAAddress {
	var a factom.FAAddress
	for i := range a {
		a[i] = k
	}
	return a
}

// VerifSQLSmoke: engine/SQL-model conformance smoke test on AddToBalance/SubFromBalance.
func VerifSQLSmoke() {
	p := &Pegnet{DB: vrt.NewDB()}
	if err := p.createTables(); err != nil {
		vrt.Assert("smoke.create", false)
		return
	}
	tx, err := p.DB.Begin()
	if err != nil {
		vrt.Assert("smoke.begin", false)
		return
	}
	a := vrtAddr(1)
	x := vrt.URange("x", 0, 1<<62)
	y := vrt.URange("y", 0, 1<<62)
	_, err = p.AddToBalance(tx, &a, fat2.PTickerUSD, x)
	vrt.Assert("smoke.add", err == nil)
	_, txErr, err := p.SubFromBalance(tx, &a, fat2.PTickerUSD, y)
	vrt.Assert("smoke.sub-noerr", err == nil)
	bal, err := p.SelectPendingBalance(tx, &a, fat2.PTickerUSD)
	vrt.Assert("smoke.sel", err == nil)
	vrt.ObserveU64("bal", bal)
	if y <= x {
		vrt.Cover("sufficient")
		vrt.Assert("smoke.sub-ok", txErr == nil && bal == x-y)
	} else {
		vrt.Cover("insufficient")
		vrt.Assert("smoke.sub-rejected", txErr == InsufficientBalanceErr && bal == x)
	}
	// committed layer does not see it
	cb, err := p.SelectBalance(&a, fat2.PTickerUSD)
	vrt.Assert("smoke.isolation", err == nil && cb == 0)
	vrt.Assert("smoke.commit", tx.Commit() == nil)
	cb, err = p.SelectBalance(&a, fat2.PTickerUSD)
	vrt.Assert("smoke.committed", err == nil && cb == bal)
	bals, err := p.SelectBalances(&a)
	vrt.Assert("smoke.balances", err == nil && bals[fat2.PTickerUSD] == bal && bals[fat2.PTickerPEG] == 0)
}
