package pegnet

import (
	"time"

	"github.com/Factom-Asset-Tokens/factom"
	"github.com/pegnet/pegnetd/fat/fat2"
	"github.com/pegnet/pegnetd/zzverif/vrt"
)

// VerifHistory: C17 — history written by the real insert functions is returned by the
// hash / address / height queries exactly: the count equals the number of matching actions,
// every matching action is returned once (first page), in history order.
type vrtAction struct {
	hash   *factom.Bytes32
	index  int
	typ    HistoryAction
	from   factom.FAAddress
	others []factom.FAAddress
	fromAs string
	toAs   string
	height uint32
	seq    int // insertion order of its batch
}

func vrtH(k byte) *factom.Bytes32 {
	var h factom.Bytes32
	for i := range h {
		h[i] = k
	}
	return &h
}

func VerifHistory() {
	p := &Pegnet{DB: vrt.NewDB()}
	if err := p.createTables(); err != nil {
		panic(err)
	}
	A, B, C := vrtAddr(0xA1), vrtAddr(0xB2), vrtAddr(0xC3)
	h1 := uint32(vrt.Range("h1", 213238, 300000))
	h2 := uint32(vrt.Range("h2", 213238, 300000))
	vrt.Assume(h1 <= h2)
	tx, err := p.DB.Begin()
	if err != nil {
		panic(err)
	}
	var acts []vrtAction
	// batch E1 (height h1): a transfer A -> {B, C} and a conversion of A
	e1 := new(fat2.TransactionBatch)
	e1.Version = 1
	e1.Entry.Hash = vrtH(0x11)
	e1.Entry.Timestamp = time.Unix(1600000000, 0)
	var t1, t2 fat2.Transaction
	t1.Input.Address, t1.Input.Type, t1.Input.Amount = A, fat2.PTickerUSD, 30
	t1.Transfers = []fat2.AddressAmountTuple{{Address: B, Amount: 10}, {Address: C, Amount: 20}}
	t2.Input.Address, t2.Input.Type, t2.Input.Amount = A, fat2.PTickerUSD, vrt.URange("amt", 0, 1<<40)
	t2.Conversion = fat2.PTickerXBT
	e1.Transactions = []fat2.Transaction{t1, t2}
	if err := p.InsertTransactionHistoryTxBatch(tx, 0, e1, h1); err != nil {
		panic(err)
	}
	acts = append(acts, vrtAction{e1.Entry.Hash, 0, Transfer, A, []factom.FAAddress{B, C}, "pUSD", "", h1, 0})
	acts = append(acts, vrtAction{e1.Entry.Hash, 1, Conversion, A, nil, "pUSD", "pXBT", h1, 0})
	// an FCT burn of B (height h1 as well)
	var burn factom.FactoidTransaction
	burn.TransactionID = vrtH(0x22)
	burn.TimestampSalt = time.Unix(1600000100, 0)
	var bin factom.FactoidTransactionIO
	bin.Amount = 5
	copy(bin.Address[:], B[:])
	burn.FCTInputs = []factom.FactoidTransactionIO{bin}
	if err := p.InsertFCTBurn(tx, vrtH(0x99), burn, h1); err != nil {
		panic(err)
	}
	acts = append(acts, vrtAction{burn.TransactionID, 0, FCTBurn, B, nil, "FCT", "pFCT", h1, 1})
	// batch E2 (height h2): a transfer B -> A in pXBT
	e2 := new(fat2.TransactionBatch)
	e2.Version = 1
	e2.Entry.Hash = vrtH(0x33)
	e2.Entry.Timestamp = time.Unix(1600000600, 0)
	var t3 fat2.Transaction
	t3.Input.Address, t3.Input.Type, t3.Input.Amount = B, fat2.PTickerXBT, 7
	t3.Transfers = []fat2.AddressAmountTuple{{Address: A, Amount: 7}}
	e2.Transactions = []fat2.Transaction{t3}
	if err := p.InsertTransactionHistoryTxBatch(tx, 0, e2, h2); err != nil {
		panic(err)
	}
	acts = append(acts, vrtAction{e2.Entry.Hash, 0, Transfer, B, []factom.FAAddress{A}, "pXBT", "", h2, 2})
	// a staking/developer style coinbase for C at h2
	if err := p.InsertDeveloperRewardCoinbase(tx, "0000000000000000000000000000000000000000000000000000000000000044", "0-0000000000000000000000000000000000000000000000000000000000000044", h2, time.Unix(1600000700, 0), 9, C); err != nil {
		panic(err)
	}
	acts = append(acts, vrtAction{vrtHFromByteAt(0x44), 0, Coinbase, C, nil, "", "PEG", h2, 3})
	// batch E3 (entered at h1): a PEG request of C, executed with a recorded yield and refund
	e3 := new(fat2.TransactionBatch)
	e3.Version = 1
	e3.Entry.Hash = vrtH(0x55)
	e3.Entry.Timestamp = time.Unix(1600000800, 0)
	var t4 fat2.Transaction
	t4.Input.Address, t4.Input.Type, t4.Input.Amount = C, fat2.PTickerUSD, 1000
	t4.Conversion = fat2.PTickerPEG
	e3.Transactions = []fat2.Transaction{t4}
	if err := p.InsertTransactionHistoryTxBatch(tx, 0, e3, h1); err != nil {
		panic(err)
	}
	pegYield := vrt.Range("pegYield", 0, 1<<40)
	pegRefund := vrt.Range("pegRefund", 0, 1000)
	if err := p.SetTransactionHistoryPEGConvertedRequestAmount(tx, e3, 0, pegYield, pegRefund); err != nil {
		panic(err)
	}
	if err := p.SetTransactionHistoryExecuted(tx, e3, int64(h2)); err != nil {
		panic(err)
	}
	acts = append(acts, vrtAction{e3.Entry.Hash, 0, Conversion, C, nil, "pUSD", "PEG", h1, 4})
	if err := tx.Commit(); err != nil {
		panic(err)
	}

	// ---- the query
	var opt HistoryQueryOptions
	opt.Desc = vrt.Choose("desc", 2) == 1
	opt.Transfer = vrt.Choose("fTransfer", 2) == 1
	opt.Conversion = vrt.Choose("fConversion", 2) == 1
	opt.Coinbase = vrt.Choose("fCoinbase", 2) == 1
	opt.FCTBurn = vrt.Choose("fBurn", 2) == 1
	opt.Asset = []string{"", "pUSD", "pXBT", "PEG"}[vrt.Choose("asset", 4)]
	field := vrt.Choose("field", 3)
	var got []HistoryTransaction
	var count int
	var qerr error
	match := func(a vrtAction) bool { return false }
	switch field {
	case 0:
		h := []*factom.Bytes32{e1.Entry.Hash, burn.TransactionID, e2.Entry.Hash, e3.Entry.Hash}[vrt.Choose("whichHash", 4)]
		if vrt.Choose("useTxIndex", 2) == 1 {
			opt.UseTxIndex = true
			opt.TxIndex = vrt.Choose("txIndex", 2)
		}
		got, count, qerr = p.SelectTransactionHistoryActionsByHash(h, opt)
		match = func(a vrtAction) bool { return *a.hash == *h && (!opt.UseTxIndex || a.index == opt.TxIndex) }
	case 1:
		addr := []factom.FAAddress{A, B, C}[vrt.Choose("whichAddr", 3)]
		got, count, qerr = p.SelectTransactionHistoryActionsByAddress(&addr, opt)
		match = func(a vrtAction) bool {
			if a.from == addr {
				return true
			}
			for _, o := range a.others {
				if o == addr {
					return true
				}
			}
			return false
		}
	default:
		hh := []uint32{h1, h2}[vrt.Choose("whichHeight", 2)]
		got, count, qerr = p.SelectTransactionHistoryActionsByHeight(hh, opt)
		match = func(a vrtAction) bool { return a.height == hh }
	}
	vrt.Assert("C17.history-query-succeeds", qerr == nil)
	if qerr != nil {
		return
	}
	allOff := opt.Transfer == opt.Conversion && opt.Conversion == opt.Coinbase && opt.Coinbase == opt.FCTBurn
	typeOK := func(a vrtAction) bool {
		if allOff {
			return true
		}
		switch a.typ {
		case Transfer:
			return opt.Transfer
		case Conversion:
			return opt.Conversion
		case Coinbase:
			return opt.Coinbase
		case FCTBurn:
			return opt.FCTBurn
		}
		return false
	}
	var want []vrtAction
	for _, a := range acts {
		if match(a) && typeOK(a) && (opt.Asset == "" || a.fromAs == opt.Asset || a.toAs == opt.Asset) {
			want = append(want, a)
		}
	}
	if len(want) > 0 {
		vrt.Cover("some-actions")
	} else {
		vrt.Cover("no-actions")
	}
	vrt.Assert("C17.count-equals-number-of-matching-actions", count == len(want))
	vrt.Assert("C17.every-matching-action-returned-once", len(got) == len(want))
	for _, w := range want {
		n := 0
		for _, g := range got {
			if *g.Hash == *w.hash && g.TxIndex == w.index {
				n++
				vrt.Assert("C17.returned-action-is-the-recorded-one", g.TxAction == w.typ && *g.FromAddress == w.from && g.FromAsset == w.fromAs && g.ToAsset == w.toAs && g.Height == int64(w.height))
				// the recorded amounts come back with it
				switch {
				case *w.hash == *e3.Entry.Hash:
					vrt.Assert("C17.returned-amounts-are-the-recorded-ones", g.ToAmount == pegYield && len(g.Outputs) == 1 && g.Outputs[0].Amount == pegRefund && g.Outputs[0].Address == C && g.Executed == int32(h2))
				case *w.hash == *e1.Entry.Hash && w.index == 0:
					vrt.Assert("C17.returned-amounts-are-the-recorded-ones", len(g.Outputs) == 2 && g.Outputs[0].Amount == 10 && g.Outputs[1].Amount == 20)
				}
			}
		}
		vrt.Assert("C17.every-matching-action-returned-once", n == 1)
	}
	// history order (insertion order of the batches), ascending or descending
	for i := 0; i+1 < len(got); i++ {
		si, sj := -1, -1
		for _, w := range want {
			if *got[i].Hash == *w.hash {
				si = w.seq
			}
			if *got[i+1].Hash == *w.hash {
				sj = w.seq
			}
		}
		if opt.Desc {
			vrt.Assert("C17.history-order", si >= sj)
		} else {
			vrt.Assert("C17.history-order", si <= sj)
		}
	}
}

func vrtHFromByteAt(last byte) *factom.Bytes32 {
	var h factom.Bytes32
	h[31] = last
	return &h
}

// VerifHistoryPages: C17 across pages. N > QueryLimit one-transaction batches entered at one
// height (amounts symbolic) are read back by height or by address, ascending or descending,
//   walk = 1: page after page the way a client does (next offset = offset + actions returned while
//             that is below the count): every recorded action comes back exactly once, in order;
//   walk = 0: at an arbitrary offset 0..N+1: the page is rows[offset : offset+QueryLimit] of the
//             ordered history, the count is N, an offset above the count is refused.
func VerifHistoryPages() {
	p := &Pegnet{DB: vrt.NewDB()}
	if err := p.createTables(); err != nil {
		panic(err)
	}
	N := vrt.Param("rows", QueryLimit+3)
	A, B := vrtAddr(0xA1), vrtAddr(0xB2)
	height := uint32(250000)
	tx, err := p.DB.Begin()
	if err != nil {
		panic(err)
	}
	hashes := make([]*factom.Bytes32, N)
	amts := make([]uint64, N)
	for i := 0; i < N; i++ {
		var h factom.Bytes32
		h[0], h[1], h[31] = 0x5A, byte(i>>8), byte(i)
		hashes[i] = &h
		amts[i] = uint64(1000 + i)
		if i == 0 || i == QueryLimit-1 || i == QueryLimit || i == N-1 {
			amts[i] = vrt.URange("amt", 1, 1<<40) // the rows at the page edges carry arbitrary amounts
		}
		e := new(fat2.TransactionBatch)
		e.Version = 1
		e.Entry.Hash = hashes[i]
		e.Entry.Timestamp = time.Unix(1600000000+int64(i), 0)
		var t fat2.Transaction
		t.Input.Address, t.Input.Type, t.Input.Amount = A, fat2.PTickerUSD, amts[i]
		t.Transfers = []fat2.AddressAmountTuple{{Address: B, Amount: amts[i]}}
		e.Transactions = []fat2.Transaction{t}
		if err := p.InsertTransactionHistoryTxBatch(tx, i, e, height); err != nil {
			panic(err)
		}
	}
	if err := tx.Commit(); err != nil {
		panic(err)
	}
	var opt HistoryQueryOptions
	opt.Desc = vrt.Choose("desc", 2) == 1
	byAddr := vrt.Choose("byAddress", 2) == 1
	ask := func(off int) ([]HistoryTransaction, int, error) {
		o := opt
		o.Offset = off
		if byAddr {
			return p.SelectTransactionHistoryActionsByAddress(&B, o)
		}
		return p.SelectTransactionHistoryActionsByHeight(height, o)
	}
	// position k of the ordered history is row idx(k)
	idx := func(k int) int {
		if opt.Desc {
			return N - 1 - k
		}
		return k
	}
	same := func(g HistoryTransaction, i int) bool {
		return g.Hash != nil && *g.Hash == *hashes[i] && g.TxIndex == 0 && g.FromAmount == int64(amts[i]) && g.Height == int64(height)
	}
	if vrt.Param("walk", 1) == 1 {
		vrt.Cover("walked")
		off, seen, pages := 0, 0, 0
		for {
			got, count, err := ask(off)
			pages++
			vrt.Assert("C17.history-query-succeeds", err == nil)
			vrt.Assert("C17.count-equals-number-of-matching-actions", count == N)
			if err != nil || pages > N {
				return
			}
			for k, g := range got {
				vrt.Assert("C17.pages-return-every-action-once-in-order", seen+k < N && same(g, idx(seen+k)))
			}
			seen += len(got)
			if off+len(got) < count && len(got) > 0 {
				off += len(got) // what the API hands out as nextoffset
				continue
			}
			break
		}
		vrt.Assert("C17.pages-return-every-action-once-in-order", seen == N)
		return
	}
	off := vrt.Choose("offset", N+2)
	got, count, err := ask(off)
	if off > N {
		vrt.Cover("offset-above-count")
		vrt.Assert("C17.offset-above-the-count-is-refused", err != nil)
		return
	}
	vrt.Cover("page")
	vrt.Assert("C17.history-query-succeeds", err == nil)
	vrt.Assert("C17.count-equals-number-of-matching-actions", count == N)
	want := N - off
	if want > QueryLimit {
		want = QueryLimit
	}
	vrt.Assert("C17.page-is-the-slice-of-the-ordered-history-at-its-offset", len(got) == want)
	for k, g := range got {
		vrt.Assert("C17.page-is-the-slice-of-the-ordered-history-at-its-offset", off+k < N && same(g, idx(off+k)))
	}
}
