package node

import (
	"context"
	"math/big"
	"time"

	"github.com/Factom-Asset-Tokens/factom"
	"github.com/pegnet/pegnetd/config"
	"github.com/pegnet/pegnetd/fat/fat2"
	"github.com/pegnet/pegnetd/zzverif/vrt"
)

// H-pegbatch: ONE held batch with several PEG requests (pUSD -> PEG, same address, different
// amounts) settled by the real holding pass in the bank-limited era [222270, 258796): the shape
// the single-conversion holding harness leaves out. Every transaction of the batch is a PEG
// request (so the closed-era findings D8 - siblings of a request - and D15 - spending the
// requested PEG in the same batch - are not in play). Rates 1:1, so a request for x pUSD wants
// x PEG; what is decided is the per-request bookkeeping:
//   C16  each request gets its share of the bank (all of it below the bank; proportional + dust
//        to the largest at or above it), the bank ledger records used / requested
//   C03/C04  the address ends with exactly: pUSD - sum(inputs) + sum(refund_i), PEG + sum(yield_i),
//        where refund_i = want_i - yield_i is computed from request i's OWN input
//   C17  the history row of transaction i records yield_i
func vrtSignedPegRequests(hash *factom.Bytes32, blockTime int64, amts []uint64) factom.Entry {
	chain := config.TransactionChain
	var e factom.Entry
	e.ChainID = &chain
	e.Hash = hash
	e.Timestamp = time.Unix(blockTime, 0)
	A := vrt.KeyAddress(0, false)
	b := new(fat2.TransactionBatch)
	b.Version = 1
	for _, a := range amts {
		var t fat2.Transaction
		t.Input.Address = A
		t.Input.Type = fat2.PTickerUSD
		t.Input.Amount = a
		t.Conversion = fat2.PTickerPEG
		b.Transactions = append(b.Transactions, t)
	}
	e.Content = vrt.Blob(b)
	vrt.SignEntry(&e, blockTime, []int{0}, []bool{false}, 0, false)
	vrt.SealEntry(&e)
	return e
}

func VerifPegBatch() {
	AveragePeriod = 3
	AverageRequired = 1
	ctx := context.Background()
	eras := []uint32{222275, 231625, 222270, 231620} // per-arrival-height bank | V4 pooled bank | their activation blocks
	c := eras[vrt.Choose("era", len(eras))]
	last := c - 1
	A := vrt.KeyAddress(0, false)
	assets := []fat2.PTicker{fat2.PTickerUSD, fat2.PTickerPEG}
	blockTime := int64(1600000000)
	n := 2 + vrt.Choose("requests", vrt.Param("maxreq", 3)-1)
	amts := make([]uint64, n)
	var sum uint64
	for i := range amts {
		amts[i] = vrt.URange("amt", 1, 2*specBank)
		sum += amts[i]
	}
	balUSD := vrt.URange("balUSD", 0, vrtMaxBal/8)
	balPEG := vrt.URange("balPEG", 0, vrtMaxBal/8)
	rates := map[fat2.PTicker]uint64{fat2.PTickerUSD: 100000000, fat2.PTickerPEG: 100000000}

	db := vrt.NewDB()
	d := vrtNodeOn(db)
	for _, wh := range []uint32{last - 3, last} {
		if _, err := db.Exec(`INSERT INTO pn_winners (height, entryhash, oprhash, payout, grade, nonce, difficulty, position, minerid, address) VALUES (?, ?, ?, ?, ?, ?, ?, ?, ?, ?)`,
			wh, []byte{1}, []byte{2}, 0, 0.0, []byte{3}, []byte{4}, 0, "m", []byte{5}); err != nil {
			panic(err)
		}
		for _, t := range assets {
			if _, err := db.Exec("INSERT INTO pn_rate (height, token, value) VALUES ($1, $2, $3)", wh, t.String(), 100000000); err != nil {
				panic(err)
			}
		}
	}
	tx0, _ := db.Begin()
	vrtSetBalance(tx0, A, fat2.PTickerUSD, balUSD)
	vrtSetBalance(tx0, A, fat2.PTickerPEG, balPEG)
	if err := tx0.Commit(); err != nil {
		panic(err)
	}
	entry := vrtSignedPegRequests(vrtHash(0x48), blockTime+int64(last)*600, amts)
	txh, _ := db.Begin()
	if err := d.ApplyTransactionBlock(txh, vrtEBlock(last, blockTime+int64(last)*600, []factom.Entry{entry})); err != nil {
		panic("arrival block: " + err.Error())
	}
	if err := txh.Commit(); err != nil {
		panic(err)
	}
	tx, err := db.Begin()
	if err != nil {
		panic(err)
	}
	for _, t := range assets {
		if _, err := tx.Exec("INSERT INTO pn_rate (height, token, value) VALUES ($1, $2, $3)", c, t.String(), rates[t]); err != nil {
			panic(err)
		}
	}
	// ---- code under test (as SyncBlock orders it)
	if err := d.SyncBank(ctx, tx, c); err != nil {
		panic("SyncBank: " + err.Error())
	}
	err = d.ApplyTransactionBatchesInHolding(ctx, tx, c, rates)
	vrt.Assert("C08.holding-pass-never-fails-block", err == nil)
	if err != nil {
		vrt.ObserveStr("error", err.Error())
		return
	}
	_, executed := vrtStatus(tx, entry.Hash)
	gotUSD := uint64(vrtBalance(tx, A, fat2.PTickerUSD))
	gotPEG := uint64(vrtBalance(tx, A, fat2.PTickerPEG))
	// ---- specification
	if sum > balUSD {
		vrt.Cover("insufficient")
		vrt.Assert("C17.multi-request-batch-status", executed == -1)
		vrt.Assert("C03.multi-request-batch-balances-exact", gotUSD == balUSD && gotPEG == balPEG)
		return
	}
	yield := make([]uint64, n)
	total := new(big.Int)
	for _, a := range amts {
		total.Add(total, new(big.Int).SetUint64(a)) // 1:1: a request for a pUSD wants a PEG
	}
	bank := new(big.Int).SetUint64(specBank)
	limited := total.Cmp(bank) >= 0
	var paid uint64
	for i, a := range amts {
		y := a
		if limited {
			s := new(big.Int).Mul(new(big.Int).SetUint64(a), bank)
			s.Div(s, total)
			y = s.Uint64()
		}
		yield[i] = y
		paid += y
	}
	if limited {
		vrt.Cover("bank-exhausted")
		top := 0
		for i := range amts {
			if amts[i] > amts[top] {
				top = i // ties: the lowest transaction id, i.e. the earliest transaction
			}
		}
		yield[top] += specBank - paid
		paid = specBank
	} else {
		vrt.Cover("bank-sufficient")
	}
	wantUSD := balUSD - sum
	for i := range amts {
		if yield[i] < amts[i] {
			wantUSD += amts[i] - yield[i] // refund of request i, from ITS input
		}
	}
	vrt.Assert("C17.multi-request-batch-status", executed == int64(c))
	vrt.Assert("C03.multi-request-batch-balances-exact", gotUSD == wantUSD && gotPEG == balPEG+paid)
	vrt.Assert("C04.multi-request-batch-supply", gotUSD == wantUSD && gotPEG == balPEG+paid)
	vrt.Assert("C16.requests-of-one-batch-share-the-bank", gotPEG == balPEG+paid && paid <= specBank)
	vrt.Assert("C16.refund-returns-exactly-the-unconverted-part", gotUSD == wantUSD)
	for i := range amts {
		vrt.Assert("C17.each-request-records-its-own-yield", uint64(vrtToAmount(tx, entry.Hash, i)) == yield[i])
		vrt.Assert("C16.each-request-records-its-own-yield", uint64(vrtToAmount(tx, entry.Hash, i)) == yield[i])
	}
	if c >= specV4 {
		be, berr := d.Pegnet.SelectBankEntry(tx, int32(c))
		vrt.Assert("C16.bank-ledger-records-amount-used-requested", berr == nil && uint64(be.BankAmount) == specBank && uint64(be.BankUsed) == paid && uint64(be.PEGRequested) == sum)
	}
}
