package node

import (
	"math/big"

	"github.com/pegnet/pegnet/modules/opr"
	"github.com/pegnet/pegnetd/fat/fat2"
	"github.com/pegnet/pegnetd/node/pegnet"
	"github.com/pegnet/pegnetd/zzverif/vrt"
)

// H-rates: C12 — (a) GetAssetRates: the winning OPR's rates filtered by the winning SPR's
// tolerance band (open era: 25 %, out-of-band assets recorded as 0);
// (b) InsertRates: one row per asset, PEG priced by the phase of the height.

func VerifRateBand() {
	vrt.Mode("fp", 1) // float64 modelled exactly as dyadic rationals (inputs bounded so that no rounding occurs)
	d := new(Pegnetd)
	names := []string{"PEG", "USD", "XBT"}
	height := uint32(vrt.Range("height", int64(specV202), 1<<31))
	haveO := vrt.Choose("oprWinner", 2) == 1
	haveS := vrt.Choose("sprWinner", 2) == 1
	var o, s []opr.AssetUint
	n := len(names)
	ov := make([]uint64, n)
	sv := make([]uint64, n)
	for i, nm := range names {
		// rates below 2^50 (1e8 = 1 USD, so < ~11 million USD per unit): float64(rate)*1.25 is then exact
		ov[i] = vrt.URange("opr", 0, 1<<50)
		sv[i] = vrt.URange("spr", 0, 1<<50)
		if haveO {
			o = append(o, opr.AssetUint{Name: nm, Value: ov[i]})
		}
		if haveS {
			s = append(s, opr.AssetUint{Name: nm, Value: sv[i]})
		}
	}
	out, err := d.GetAssetRates(o, s, height)
	switch {
	case !haveO && !haveS:
		vrt.Cover("no-winners")
		vrt.Assert("C12.no-winners-no-rates", err != nil && out == nil)
	case haveO && !haveS:
		vrt.Cover("opr-only")
		vrt.Assert("C12.opr-only-rates-are-oprs", err == nil && len(out) == n)
		for i := 0; i < n && i < len(out); i++ {
			vrt.Assert("C12.opr-only-rates-are-oprs", out[i].Name == names[i] && out[i].Value == ov[i])
		}
	case !haveO && haveS:
		vrt.Cover("spr-only")
		vrt.Assert("C12.spr-only-rates-are-sprs", err == nil && len(out) == n)
		for i := 0; i < n && i < len(out); i++ {
			vrt.Assert("C12.spr-only-rates-are-sprs", out[i].Name == names[i] && out[i].Value == sv[i])
		}
	default:
		vrt.Cover("both")
		vrt.Assert("C12.band-rule-yields-one-rate-per-asset", err == nil && len(out) == n)
		for i := 0; i < n && i < len(out); i++ {
			// 25 % band around the staking rate, in exact integer arithmetic:
			// 0.75*spr <= opr <= 1.25*spr  <=>  3*spr <= 4*opr <= 5*spr
			o4 := new(big.Int).Mul(big.NewInt(4), new(big.Int).SetUint64(ov[i]))
			lo := new(big.Int).Mul(big.NewInt(3), new(big.Int).SetUint64(sv[i]))
			hi := new(big.Int).Mul(big.NewInt(5), new(big.Int).SetUint64(sv[i]))
			inside := vrt.AndB(o4.Cmp(lo) >= 0, o4.Cmp(hi) <= 0)
			want := vrt.IteU64(inside, ov[i], 0)
			vrt.Assert("C12.inside-band-opr-rate-else-zero", out[i].Name == names[i] && out[i].Value == want)
		}
	}
}

// VerifRateBandLegacy: the closed-era band rules, whose constants (0.1, 0.01, 0.001) are not
// dyadic: float64 products are ROUNDED. The engine follows IEEE round-to-nearest-even exactly
// (a fork per binade of the exact product), so the band is decided bit for bit.
//   era 0: [2.0, dev-rewards)  GetAssetRatesV0: 1 % band, 0.1 % when the staking rate >= 100000; outside => error
//   era 1: [dev-rewards, 2.0.2) GetAssetRates: 10 % band; outside => error
// Specification = the documented formula  spr*(1-t) <= opr <= spr*(1+t)  evaluated in float64
// with the era's t (this IS the rule recorded consensus followed), cross-checked against the
// exact rational band everywhere except within one base unit of its two edges.
func VerifRateBandLegacy() {
	vrt.Mode("fp", 1)
	d := new(Pegnetd)
	era := vrt.Param("era", 0)
	bits := uint(vrt.Param("ratebits", 50))
	ov := vrt.URange("opr", 0, 1<<bits)
	sv := vrt.URange("spr", 0, 1<<bits)
	// a second asset that is always inside its band, listed first
	o := []opr.AssetUint{{Name: "PEG", Value: 7}, {Name: "USD", Value: ov}}
	s := []opr.AssetUint{{Name: "PEG", Value: 7}, {Name: "USD", Value: sv}}
	var out []opr.AssetUint
	var err error
	var t float64
	var num, den uint64 // t = num/den exactly
	if era == 0 {
		out, err = d.GetAssetRatesV0(o, s)
		t, num, den = 0.01, 1, 100
		if sv >= 100000 {
			t, num, den = 0.001, 1, 1000
		}
	} else {
		height := uint32(vrt.Range("height", int64(specV20Dev), int64(specV202)-1))
		out, err = d.GetAssetRates(o, s, height)
		t, num, den = 0.1, 1, 10
	}
	hi := float64(sv) * (1 + t)
	lo := float64(sv) * (1 - t)
	inside := vrt.AndB(float64(ov) >= lo, float64(ov) <= hi)
	// exact rational band: (den-num)*spr <= den*opr <= (den+num)*spr
	od := new(big.Int).Mul(new(big.Int).SetUint64(den), new(big.Int).SetUint64(ov))
	l := new(big.Int).Mul(new(big.Int).SetUint64(den-num), new(big.Int).SetUint64(sv))
	h := new(big.Int).Mul(new(big.Int).SetUint64(den+num), new(big.Int).SetUint64(sv))
	// ... compared one whole base unit away from the edges: below 2^50 the rounding of the
	// constant and of the product moves the float threshold by less than one unit
	dd := new(big.Int).SetUint64(den)
	strictlyIn := vrt.AndB(od.Cmp(new(big.Int).Add(l, dd)) >= 0, od.Cmp(new(big.Int).Sub(h, dd)) <= 0)
	strictlyOut := vrt.OrB(od.Cmp(new(big.Int).Sub(l, dd)) <= 0, od.Cmp(new(big.Int).Add(h, dd)) >= 0)
	vrt.Assert("C12.legacy-float-band-is-the-exact-band-up-to-one-unit-at-its-edges",
		vrt.AndB(vrt.OrB(vrt.NotB(strictlyIn), inside), vrt.OrB(vrt.NotB(strictlyOut), vrt.NotB(inside))))
	if inside {
		vrt.Cover("inside")
		if float64(ov) == hi {
			vrt.Cover("edge-high")
		}
		if float64(ov) == lo {
			vrt.Cover("edge-low")
		}
		vrt.Assert("C12.legacy-inside-band-records-the-opr-rates", err == nil && len(out) == 2)
		if err == nil && len(out) == 2 {
			vrt.Assert("C12.legacy-inside-band-records-the-opr-rates", out[0].Name == "PEG" && out[0].Value == 7 && out[1].Name == "USD" && out[1].Value == ov)
		}
	} else {
		vrt.Cover("outside")
		vrt.Assert("C12.legacy-outside-band-refuses-the-rates", err != nil && out == nil)
	}
}

func VerifInsertRates() {
	d, db := vrtNode(false)
	_ = d
	names := []string{"PEG", "USD", "XBT"}
	tick := []fat2.PTicker{fat2.PTickerPEG, fat2.PTickerUSD, fat2.PTickerXBT}
	phase := pegnet.PEGPricingPhase(vrt.Choose("phase", 4)) // 0 = undefined
	height := uint32(vrt.Range("height", 206422, 1<<31))
	// committed ledger: issuance of each asset = sum over two holders
	supply := make([]uint64, 3)
	tx0, _ := db.Begin()
	for hi := 0; hi < 2; hi++ {
		for i, t := range tick {
			b := vrt.URange("bal", 0, vrtMaxBal/4)
			supply[i] += b
			vrtSetBalance(tx0, vrtAddr(byte(0xA0+hi)), t, b)
		}
	}
	if err := tx0.Commit(); err != nil {
		panic(err)
	}
	vals := make([]uint64, 3)
	var rates []opr.AssetUint
	for i, nm := range names {
		vals[i] = vrt.URange("rate", 0, 1<<62)
		rates = append(rates, opr.AssetUint{Name: nm, Value: vals[i]})
	}
	// specification of the PEG price
	var wantPEG uint64
	switch phase {
	case pegnet.PEGPriceIsZero:
		wantPEG = 0
	case pegnet.PEGPriceIsEquation:
		capz := new(big.Int)
		for i := 1; i < 3; i++ {
			capz.Add(capz, new(big.Int).Mul(new(big.Int).SetUint64(supply[i]), new(big.Int).SetUint64(vals[i])))
		}
		if supply[0] == 0 {
			wantPEG = 0
		} else {
			q := new(big.Int).Div(capz, new(big.Int).SetUint64(supply[0]))
			vrt.Assume(q.IsInt64()) // a PEG price above 2^63 cannot be stored in SQLite's integer column
			wantPEG = q.Uint64()
		}
	case pegnet.PEGPriceIsFloating:
		wantPEG = vals[0]
	}
	tx, _ := db.Begin()
	err := d.Pegnet.InsertRates(tx, height, rates, phase)
	if phase == 0 {
		vrt.Cover("undefined-phase")
		vrt.Assert("C12.undefined-phase-rejected", err != nil)
		return
	}
	vrt.Cover("inserted")
	vrt.Assert("C12.insert-rates-succeeds", err == nil)
	if err != nil {
		return
	}
	got := map[string]int64{}
	rows, qerr := tx.Query("SELECT token, value FROM pn_rate WHERE height = ?", height)
	if qerr != nil {
		panic(qerr)
	}
	cnt := 0
	for rows.Next() {
		var tok string
		var v int64
		if err := rows.Scan(&tok, &v); err != nil {
			panic(err)
		}
		got[tok] = v
		cnt++
	}
	rows.Close()
	vrt.Assert("C12.one-rate-row-per-asset", cnt == 3)
	vrt.Assert("C12.asset-rates-recorded-as-given", uint64(got["pUSD"]) == vals[1] && uint64(got["pXBT"]) == vals[2])
	vrt.Assert("C12.peg-priced-by-phase", uint64(got["PEG"]) == wantPEG)
	// immutability: recording rates for the same height again fails, rows unchanged
	snap := vrt.Snapshot(tx)
	again := []opr.AssetUint{{Name: "PEG", Value: 1}, {Name: "USD", Value: 2}, {Name: "XBT", Value: 3}}
	err2 := d.Pegnet.InsertRates(tx, height, again, pegnet.PEGPriceIsFloating)
	vrt.Assert("C12.rates-of-a-height-are-immutable", err2 != nil && vrt.SameStore(snap, vrt.Snapshot(tx)))
	vrt.Assert("C12.rate-table-never-updated-or-deleted", vrt.Monitor("pn_rate-mutated") == 0)
}
