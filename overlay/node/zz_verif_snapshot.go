package node

import (
	"database/sql"
	"encoding/hex"
	"fmt"
	"math/big"
	"time"

	"github.com/Factom-Asset-Tokens/factom"
	"github.com/pegnet/pegnetd/fat/fat2"
	"github.com/pegnet/pegnetd/zzverif/vrt"
)

// H-snapshot: SnapshotPayouts (+ SnapshotCurrent, SelectSnapshotBalances, Convert,
// ConversionSupplySet, InsertStakingCoinbase, AddToBalance).
// Serves C14 (min-of-two-snapshots, proportional, capped), C01 (order independence),
// C04 (issuance = payouts), C08 (terminates without error).

func vrtSetBalanceIn(q vrtExecer, table string, a factom.FAAddress, t fat2.PTicker, v uint64) {
	col := vrtTickerCol(t)
	_, err := q.Exec(`INSERT INTO `+table+` ("address", "`+col+`") VALUES (?, ?) ON CONFLICT("address") DO UPDATE SET "`+col+`" = "excluded"."`+col+`"`, a[:], v)
	if err != nil {
		panic("vrtSetBalanceIn: " + err.Error())
	}
}

type vrtSnapIn struct {
	height  uint32
	addrs   []factom.FAAddress
	inPast  []bool
	inCur   []bool
	assets  []fat2.PTicker
	past    [][]uint64 // [addr][asset]
	cur     [][]uint64
	pegPast []uint64
	pegCur  []uint64
	rates   map[fat2.PTicker]uint64
}

func vrtSnapBuild(in *vrtSnapIn) (*Pegnetd, *sql.DB, *sql.Tx) {
	d, db := vrtNode(false)
	tx, err := db.Begin()
	if err != nil {
		panic(err)
	}
	for i, a := range in.addrs {
		if in.inPast[i] {
			vrtSetBalanceIn(tx, "snapshot_current", a, fat2.PTickerPEG, in.pegPast[i])
			for k, t := range in.assets {
				vrtSetBalanceIn(tx, "snapshot_current", a, t, in.past[i][k])
			}
		}
		if in.inCur[i] {
			vrtSetBalanceIn(tx, "pn_addresses", a, fat2.PTickerPEG, in.pegCur[i])
			for k, t := range in.assets {
				vrtSetBalanceIn(tx, "pn_addresses", a, t, in.cur[i][k])
			}
		}
	}
	return d, db, tx
}

func vrtStakeTxid(height uint32) []byte {
	b, err := hex.DecodeString(fmt.Sprintf("%064d", height))
	if err != nil {
		panic(err)
	}
	return b
}

func VerifSnapshot() {
	nBoth := vrt.Param("both", 2)       // addresses present in both snapshots
	extras := vrt.Param("extras", 1)    // 1: add one address only in the new and one only in the old snapshot
	nAssets := vrt.Param("assets", 1)   // non-PEG assets with symbolic balances
	order := vrt.Param("order", 0)      // 1: also run under the order oracle and compare (C01)
	positive := vrt.Param("positive", 0) // 1: assume the symbolic balances are > 0 (fewer paths)
	heights := []uint32{258912, 274176} // first snapshot heights >= 2.0 and >= 2.0.2
	in := new(vrtSnapIn)
	in.height = heights[vrt.Choose("era", 2)]
	pool := []fat2.PTicker{fat2.PTickerEUR, fat2.PTickerXBT, fat2.PTickerUSD} // ticker order EUR < XBT: a zero-rated asset before a priced one is reachable with 2 assets
	if vrt.Param("edge", 0) == 1 {
		// the first held asset is either an interior ticker or the last one of the enumeration
		// (column lists and per-ticker loops end there)
		pool[0] = []fat2.PTicker{fat2.PTickerEUR, fat2.PTickerMax - 1}[vrt.Choose("edgeasset", 2)]
	}
	in.assets = pool[:nAssets]
	n := nBoth
	if extras == 1 {
		n += 2
	}
	in.rates = map[fat2.PTicker]uint64{}
	fixRates := vrt.Param("fixrates", 0) == 1 // concrete rates: the run is about allocation/order, not valuation
	for _, t := range in.assets {
		if fixRates {
			in.rates[t] = 100000000
		} else {
			in.rates[t] = vrt.U64("rate")
		}
	}
	if _, ok := in.rates[fat2.PTickerUSD]; !ok {
		if fixRates {
			in.rates[fat2.PTickerUSD] = 100000000
		} else {
			in.rates[fat2.PTickerUSD] = vrt.U64("rateUSD")
		}
	}
	in.rates[fat2.PTickerPEG] = vrt.U64("ratePEG")
	rUSD := in.rates[fat2.PTickerUSD]
	for i := 0; i < n; i++ {
		in.addrs = append(in.addrs, vrtAddr(byte(0xA0+i)))
		in.inPast = append(in.inPast, i < nBoth || i == nBoth+1)
		in.inCur = append(in.inCur, i < nBoth || i == nBoth)
		in.pegPast = append(in.pegPast, vrt.URange("pegPast", 0, vrtMaxBal))
		in.pegCur = append(in.pegCur, vrt.URange("pegCur", 0, vrtMaxBal))
		p := make([]uint64, nAssets)
		c := make([]uint64, nAssets)
		for k := range in.assets {
			p[k] = vrt.URange("past", 0, vrtMaxBal)
			c[k] = vrt.URange("cur", 0, vrtMaxBal)
			if positive == 1 {
				vrt.Assume(p[k] > 0 && c[k] > 0)
			}
		}
		in.past = append(in.past, p)
		in.cur = append(in.cur, c)
	}
	// ---- specification: stake_i = sum over non-PEG assets of floor(min(past,cur)*rate/rateUSD)
	// (zero-rate assets skipped from 2.0.2), only for addresses in both snapshots
	stake := make([]*big.Int, n)
	totalStake := new(big.Int)
	specErr := false // the spec leaves a block error possible: valuation not computable (closed-era D10 / overflow)
	for i := 0; i < n; i++ {
		stake[i] = new(big.Int)
		if !(in.inPast[i] && in.inCur[i]) {
			continue
		}
		for k, t := range in.assets {
			m := vrt.IteU64(in.past[i][k] < in.cur[i][k], in.past[i][k], in.cur[i][k])
			if m == 0 {
				continue
			}
			r := in.rates[t]
			if (r == 0 || rUSD == 0) && in.height >= specV202 {
				continue
			}
			if r == 0 || rUSD == 0 {
				specErr = true // before 2.0.2: a zero rate fails the block (known finding D10, C08)
				continue
			}
			v := new(big.Int).Mul(new(big.Int).SetUint64(m), new(big.Int).SetUint64(r))
			v.Div(v, new(big.Int).SetUint64(rUSD))
			// precondition (DESIGN §8): the USD value of one holding fits int64, stakes fit uint64
			vrt.Assume(v.IsInt64())
			stake[i].Add(stake[i], v)
		}
		vrt.Assume(stake[i].IsUint64())
		totalStake.Add(totalStake, stake[i])
	}
	bank := new(big.Int).SetUint64(specHolderPerBlock * uint64(specSnapshotRate))

	// ================= code under test =================
	d, _, tx := vrtSnapBuild(in)
	ts := time.Unix(1600000000, 0)
	err := d.SnapshotPayouts(tx, vrtLog(), in.rates, in.height, ts)
	// ====================================================
	if err != nil {
		vrt.Cover("error")
		if specErr {
			vrt.Assert("C08.snapshot-never-fails-block@D10", false)
		} else {
			vrt.Assert("C08.snapshot-never-fails-block", false)
		}
		return
	}
	if specErr {
		vrt.Cover("zero-rate-legacy")
		return // (pre-2.0.2 zero-rate corner: Convert error expected; nothing more to claim)
	}
	vrt.Cover("paid")
	txid := vrtStakeTxid(in.height)
	paid := new(big.Int)
	pay := make([]uint64, n)
	for i, a := range in.addrs {
		var post, pre int64
		post = vrtBalance(tx, a, fat2.PTickerPEG)
		if in.inCur[i] {
			pre = int64(in.pegCur[i])
		}
		vrt.Assert("C14.peg-never-decreases", post >= pre)
		pay[i] = uint64(post - pre)
		vrt.ObserveU64(fmt.Sprintf("pay%d", i), pay[i])
		paid.Add(paid, new(big.Int).SetUint64(pay[i]))
		if stake[i].Sign() == 0 {
			vrt.Assert("C14.no-stake-no-pay", pay[i] == 0)
		}
		// non-PEG balances are untouched by the payout
		for k, t := range in.assets {
			if in.inCur[i] {
				vrt.Assert("C04.snapshot-touches-only-peg", uint64(vrtBalance(tx, a, t)) == in.cur[i][k])
			}
		}
	}
	// cap and exactness
	vrt.Assert("C14.total-never-above-cap", paid.Cmp(bank) <= 0)
	if totalStake.Cmp(bank) >= 0 {
		vrt.Cover("capped")
		vrt.Assert("C14.total-equals-cap-when-stake-exceeds", paid.Cmp(bank) == 0)
		for i := 0; i < n; i++ {
			share := new(big.Int).Mul(stake[i], bank)
			if totalStake.Sign() > 0 {
				share.Div(share, totalStake)
			}
			p := new(big.Int).SetUint64(pay[i])
			extra := new(big.Int).Sub(p, share)
			vrt.Assert("C14.proportional-share-plus-dust", extra.Sign() >= 0 && extra.Cmp(big.NewInt(int64(n))) < 0)
		}
	} else {
		vrt.Cover("uncapped")
		for i := 0; i < n; i++ {
			vrt.Assert("C14.stake-paid-in-full-below-cap", new(big.Int).SetUint64(pay[i]).Cmp(stake[i]) == 0)
		}
	}
	// history: one staking coinbase row per paid address, amounts equal to the credit (C17/C04)
	var rows int
	if err := tx.QueryRow(`SELECT COUNT(*) FROM pn_history_transaction WHERE entry_hash = ?`, txid).Scan(&rows); err != nil {
		panic(err)
	}
	eligible := 0
	for i := 0; i < n; i++ {
		if stake[i].Sign() > 0 {
			eligible++
		}
	}
	vrt.Assert("C17.one-staking-row-per-eligible-address", rows == eligible)
	for i, a := range in.addrs {
		if stake[i].Sign() == 0 {
			continue
		}
		var amt int64
		var cnt int
		if err := tx.QueryRow(`SELECT COUNT(*), IFNULL(SUM(to_amount), 0) FROM pn_history_transaction WHERE entry_hash = ? AND from_address = ?`, txid, a[:]).Scan(&cnt, &amt); err != nil {
			panic(err)
		}
		vrt.Assert("C17.staking-row-amount-equals-credit", cnt == 1 && uint64(amt) == pay[i])
	}
	// snapshots rolled: snapshot_current now equals pn_addresses before payouts for the addresses' non-PEG assets
	vrt.Assert("C02.no-write-outside-block-tx", vrt.Monitor("db-write-during-tx") == 0)

	// ---- C01: order oracle (map iteration / unstable sort): same observable result
	if order == 1 {
		vrt.Permute(true)
		d2, _, tx2 := vrtSnapBuild(in)
		err2 := d2.SnapshotPayouts(tx2, vrtLog(), in.rates, in.height, ts)
		vrt.Permute(false)
		vrt.Assert("C01.staking-order-independent-error", err2 == nil)
		for i, a := range in.addrs {
			post2 := vrtBalance(tx2, a, fat2.PTickerPEG)
			var pre int64
			if in.inCur[i] {
				pre = int64(in.pegCur[i])
			}
			vrt.Assert("C01.staking-payout-order-independent", uint64(post2-pre) == pay[i])
			vrt.ObserveI64(fmt.Sprintf("idx%d", i), vrtStakeIndex(tx, txid, a))
			vrt.Assert("C01.staking-history-index-order-independent", vrtStakeIndex(tx2, txid, a) == vrtStakeIndex(tx, txid, a))
		}
	}
}

// vrtStakeIndex: tx_index of the staking coinbase row of an address (-1 if none).
func vrtStakeIndex(q vrtExecer, txid []byte, a factom.FAAddress) int64 {
	var idx int64
	err := q.QueryRow(`SELECT tx_index FROM pn_history_transaction WHERE entry_hash = ? AND from_address = ?`, txid, a[:]).Scan(&idx)
	if err == sql.ErrNoRows {
		return -1
	}
	if err != nil {
		panic(err)
	}
	return idx
}
