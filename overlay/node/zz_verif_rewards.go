package node

import (
	"time"

	"github.com/Factom-Asset-Tokens/factom"
	"github.com/pegnet/pegnet/modules/grader"
	"github.com/pegnet/pegnet/modules/graderStake"
	"github.com/pegnet/pegnet/modules/opr"
	"github.com/pegnet/pegnet/modules/spr"
	"github.com/pegnet/pegnetd/fat/fat2"
	"github.com/pegnet/pegnetd/zzverif/vrt"
)

// H-rewards: ApplyGradedOPRBlock / ApplyGradedSPRBlock with an ARBITRARY grader verdict
// (the grading algorithm itself is dependency code: what it decides is an input here).
// Serves C11 (rewards exactly as decided, once), C04 (issuance), C17 (coinbase history).

// vrtRec: a decoded price record as far as the reward code looks at it.
type vrtRec struct {
	height int32
	addr   string
	id     string
	assets []opr.AssetUint
}

func (r *vrtRec) GetHeight() int32                        { return r.height }
func (r *vrtRec) GetAddress() string                      { return r.addr }
func (r *vrtRec) GetPreviousWinners() []string            { return nil }
func (r *vrtRec) GetID() string                           { return r.id }
func (r *vrtRec) GetOrderedAssetsFloat() []opr.AssetFloat { return nil }
// (the real record types build a fresh list on every call; callers rename its elements in place)
func (r *vrtRec) GetOrderedAssetsUint() []opr.AssetUint {
	return append([]opr.AssetUint{}, r.assets...)
}
func (r *vrtRec) Marshal() ([]byte, error)                { return nil, nil }
func (r *vrtRec) GetType() opr.Type                       { return opr.V2 }
func (r *vrtRec) Clone() opr.OPR                          { c := *r; return &c }

type vrtSRec struct{ vrtRec }

func (r *vrtSRec) GetType() spr.Type { return spr.V2 }
func (r *vrtSRec) Clone() spr.SPR    { c := *r; return &c }

// verdict objects implementing the dependency's GradedBlock interfaces
type vrtGradedOPR struct {
	winners []*grader.GradingOPR
	graded  []*grader.GradingOPR
	version uint8
}

func (g *vrtGradedOPR) WinnersShortHashes() []string   { return nil }
func (g *vrtGradedOPR) Winners() []*grader.GradingOPR  { return g.winners }
func (g *vrtGradedOPR) Graded() []*grader.GradingOPR   { return g.graded }
func (g *vrtGradedOPR) Version() uint8                 { return g.version }
func (g *vrtGradedOPR) Cutoff() int                    { return 50 }
func (g *vrtGradedOPR) Count() int                     { return len(g.graded) }
func (g *vrtGradedOPR) WinnerAmount() int              { return len(g.winners) }

type vrtGradedSPR struct {
	winners []*graderStake.GradingSPR
	version uint8
}

func (g *vrtGradedSPR) WinnersShortHashes() []string       { return nil }
func (g *vrtGradedSPR) Winners() []*graderStake.GradingSPR { return g.winners }
func (g *vrtGradedSPR) Graded() []*graderStake.GradingSPR  { return g.winners }
func (g *vrtGradedSPR) Version() uint8                     { return g.version }
func (g *vrtGradedSPR) Cutoff() int                        { return 50 }
func (g *vrtGradedSPR) Count() int                         { return len(g.winners) }
func (g *vrtGradedSPR) WinnerAmount() int                  { return len(g.winners) }

func VerifRewards() {
	d, db := vrtNode(false)
	staking := vrt.Choose("staking", 2) == 1
	maxW := vrt.Param("maxwinners", 3)
	n := vrt.Choose("nwinners", maxW+1) // 0..maxW winners
	height := int32(vrt.Range("height", int64(specTxActivation), 400000))
	ts := time.Unix(vrt.Range("blockTime", 1500000000, 2000000000), 0)
	pool := []factom.FAAddress{vrtAddr(0xA1), vrtAddr(0xB2)}
	bystander := vrtAddr(0xC3)
	tx, _ := db.Begin()
	pre := make([]uint64, len(pool))
	for i, a := range pool {
		if vrt.Choose("row", 2) == 1 {
			pre[i] = vrt.URange("prior", 0, vrtMaxBal/4)
			vrtSetBalance(tx, a, fat2.PTickerPEG, pre[i])
		}
	}
	byPre := vrt.URange("bystander", 0, vrtMaxBal/4)
	vrtSetBalance(tx, bystander, fat2.PTickerPEG, byPre)

	payout := make([]int64, n)
	who := make([]int, n) // index into pool, or len(pool) = unparsable address
	var ow []*grader.GradingOPR
	var sw []*graderStake.GradingSPR
	for i := 0; i < n; i++ {
		payout[i] = vrt.Range("payout", 0, int64(vrtMaxBal/16))
		who[i] = vrt.Choose("payee", len(pool)+1)
		addr := "not-an-address"
		if who[i] < len(pool) {
			addr = pool[who[i]].String()
		}
		eh := vrtHash(byte(0x20 + i))
		if staking {
			sw = append(sw, vrt.NewGradingSPR(eh[:], payout[i], i, &vrtSRec{vrtRec{height: height, addr: addr, id: "id"}}))
		} else {
			ow = append(ow, vrt.NewGradingOPR(eh[:], payout[i], i, &vrtRec{height: height, addr: addr, id: "id"}))
		}
	}
	sum0 := vrtSum(tx, fat2.PTickerPEG)
	var err error
	if staking {
		err = d.ApplyGradedSPRBlock(tx, &vrtGradedSPR{winners: sw, version: 7}, ts)
	} else {
		err = d.ApplyGradedOPRBlock(tx, &vrtGradedOPR{winners: ow, graded: ow, version: 5}, ts)
	}
	if n == 0 {
		vrt.Cover("no-winners")
	} else {
		vrt.Cover("winners")
	}
	vrt.Assert("C11.reward-application-succeeds", err == nil)
	if err != nil {
		return
	}
	var total uint64
	for pi, a := range pool {
		want := pre[pi]
		for i := 0; i < n; i++ {
			if who[i] == pi {
				want += uint64(payout[i])
			}
		}
		vrt.Assert("C11.each-winner-paid-its-payout-once", uint64(vrtBalance(tx, a, fat2.PTickerPEG)) == want)
		total += want - pre[pi]
	}
	vrt.Assert("C11.nobody-else-paid", uint64(vrtBalance(tx, bystander, fat2.PTickerPEG)) == byPre)
	vrt.Assert("C04.reward-issuance-equals-payouts", uint64(vrtSum(tx, fat2.PTickerPEG)-sum0) == total)
	for i := 0; i < n; i++ {
		eh := vrtHash(byte(0x20 + i))
		rows, executed := vrtStatus(tx, eh)
		if who[i] == len(pool) {
			vrt.Assert("C11.unparsable-payout-address-pays-nothing", rows == 0)
			continue
		}
		vrt.Assert("C17.one-coinbase-record-per-winner", rows == 1 && executed == int64(height))
		vrt.Assert("C17.coinbase-amount-recorded", vrtToAmount(tx, eh, 0) == payout[i])
	}
	vrt.Assert("C02.no-write-outside-block-tx", vrt.Monitor("db-write-during-tx") == 0)
}
