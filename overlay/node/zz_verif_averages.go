package node

import (
	"context"
	"fmt"

	"github.com/pegnet/pegnetd/fat/fat2"
	"github.com/pegnet/pegnetd/node/pegnet"
	"github.com/pegnet/pegnetd/zzverif/vrt"
)

// H-averages: GetPegNetRateAverages — C09 (restart independence of conversion pricing).
// Instance A lives through the whole chain (as the sync loop drives it: one call per rated
// block, asking for the most recent rated height before it). Instance B is a freshly
// started daemon that makes only the last call. Their averages must agree at every step.
func VerifAverages() {
	P := uint64(vrt.Param("period", 3))
	H := vrt.Param("heights", 6)
	AveragePeriod = P
	AverageRequired = P / 2
	d, db := vrtNode(false)
	tickers := []fat2.PTicker{fat2.PTickerUSD, fat2.PTickerXBT}
	// variant 1 (parameter gap=1): the second asset is quoted from the start, then left out of the
	// rates of 1..2 consecutive heights and quoted again (a rated block need not quote every asset):
	// its series must age by block height even while it receives no new sample
	gapAt, gapLen := 0, 0
	if vrt.Param("gap", 0) == 1 && vrt.Choose("variant", 2) == 1 {
		gapAt = 1 + vrt.Choose("gapAt", H)
		gapLen = 1 + vrt.Choose("gapLen", 2)
	}
	xbtFrom := 1
	if gapAt == 0 {
		xbtFrom = 1 + vrt.Choose("xbtFrom", H) // the second asset appears later in the chain
	}
	rated := make([]bool, H+2)
	// the chain either starts at height 1 or straddles the PIP-10 activation (the third block of
	// the chain is the activation block), so that era tests inside the routine are crossed by a
	// daemon that lives through them
	base := 0
	if vrt.Param("bases", 2) == 2 && vrt.Choose("base", 2) == 1 {
		base = int(specPIP10) - 3
	}
	zeroAt := 0
	if gapAt == 0 {
		zeroAt = vrt.Choose("zeroRateAt", H+1)
	} // the first asset is recorded with rate 0 at this height (0 = nowhere)
	val := make([][2]uint64, H+2) // the recorded samples, for the reference value below
	has := make([][2]bool, H+2)
	// ---- the chain's rate table (committed, as after syncing H blocks)
	for h := 1; h <= H; h++ {
		rated[h] = vrt.Choose("rated", 2) == 1
		if !rated[h] {
			continue
		}
		for ti, t := range tickers {
			if ti == 1 && h < xbtFrom {
				continue
			}
			if ti == 1 && gapAt > 0 && h >= gapAt && h < gapAt+gapLen {
				continue
			}
			v := vrt.URange("rate", 1, 1<<40)
			if ti == 0 && h == zeroAt {
				v = 0 // a recorded 0 (an out-of-band asset from 2.0.2 on) is a sample too
			}
			val[h][ti], has[h][ti] = v, true
			if _, err := db.Exec("INSERT INTO pn_rate (height, token, value) VALUES ($1, $2, $3)", base+h, t.String(), v); err != nil {
				panic(err)
			}
		}
	}
	ctx := context.Background()
	nRated := 0
	for c := 1; c <= H+1; c++ {
		if c <= H && !rated[c] {
			continue // the holding pass (and with it the averages) runs only on rated blocks
		}
		// what ApplyTransactionBatchesInHolding does at block c
		_, last, err := d.Pegnet.SelectMostRecentRatesBeforeHeight(ctx, db, uint32(base+c))
		if err != nil {
			panic(err)
		}
		avgA := d.GetPegNetRateAverages(ctx, last).(map[fat2.PTicker]uint64)
		// a daemon restarted right before block c
		fresh := new(Pegnetd)
		fresh.Pegnet = d.Pegnet
		fresh.Sync = new(pegnet.BlockSync)
		avgB := fresh.GetPegNetRateAverages(ctx, last).(map[fat2.PTicker]uint64)
		nRated++
		// ---- absolute reference: the samples of an asset are its recorded rates in the block window
		// [last-P+1, last]; the average is unavailable (0) unless at least AverageRequired of the P
		// blocks carry a NON-ZERO rate for it, otherwise the mean of the samples held
		L := int(last) - base
		for ti, t := range tickers {
			var sum, n, nonzero uint64
			for h := L - int(P) + 1; h <= L; h++ {
				if h >= 1 && h <= H && has[h][ti] {
					n++
					sum += val[h][ti]
					if val[h][ti] != 0 {
						nonzero++
					}
				}
			}
			want := uint64(0)
			if nonzero >= AverageRequired && n > 0 {
				want = sum / n
			}
			vrt.Assert("C13.average-unavailable-unless-enough-priced-blocks-else-the-window-mean", avgA[t] == want && avgB[t] == want)
			vrt.Assert("C07.average-is-the-mean-of-the-window-samples", avgA[t] == want && avgB[t] == want)
		}
		for _, t := range tickers {
			vrt.ObserveU64(fmt.Sprintf("A%d_%s", c, t.String()), avgA[t])
			vrt.ObserveU64(fmt.Sprintf("B%d_%s", c, t.String()), avgB[t])
			vrt.Assert("C09.averages-independent-of-restart", avgA[t] == avgB[t])
			// the same fact read as C01: two processes replaying one chain (one restarted) price alike
			vrt.Assert("C01.conversion-pricing-independent-of-process-history", avgA[t] == avgB[t])
		}
	}
	if gapAt > 0 {
		vrt.Cover("asset-unquoted-for-a-stretch")
	} else if nRated >= 3 {
		vrt.Cover("three-or-more-rated")
	} else {
		vrt.Cover("few-rated")
	}
}
