package node

import (
	"math/big"
	"context"
	"time"

	"github.com/Factom-Asset-Tokens/factom"
	"github.com/pegnet/pegnet/modules/grader"
	"github.com/pegnet/pegnet/modules/graderStake"
	"github.com/pegnet/pegnet/modules/opr"
	"github.com/pegnet/pegnetd/config"
	"github.com/pegnet/pegnetd/fat/fat2"
	"github.com/pegnet/pegnetd/zzverif/vrt"
)

// H-syncblock: the real SyncBlock with an ARBITRARY grader verdict (graders stubbed through
// their constructors) and stubbed Factom requests. What is decided here is SyncBlock's own
// glue: which routine runs at which height, with what.
//   C12c  rates recorded iff there are winners, PEG priced by the phase of the height,
//         band rule of the era; no winners => no rates and no holding pass
//   C11   OPR rewards at every height, SPR rewards only from 2.0, FCT burns only before 2.0
//   C14   holder snapshot exactly at heights >= 2.0 with height % 144 == 0
//   C15   developer payout exactly at heights >= dev activation with height % 144 == 0;
//         mint / burn-of-mint exactly at their heights

const (
	fxFactomEntry = "(*github.com/Factom-Asset-Tokens/factom.Entry).Get"
	fxFactomEBlk  = "(*github.com/Factom-Asset-Tokens/factom.EBlock).Get"
	fxFactomFTx   = "(*github.com/Factom-Asset-Tokens/factom.FactoidTransaction).Get"
	fxMultiFetch  = "github.com/pegnet/pegnetd/node.multiFetch"
)

var vrtSyncHeights = []uint32{
	206500, // before transactions/conversions
	213300, // PEG price zero
	214300, // PEG price by equation
	222300, // floating PEG price, bank-limited conversions
	231700, // V4
	258796, // 2.0 activation block
	258912, // first holder snapshot (2.0, 1 %/0.1 % band era)
	260118, // developer rewards / SPR signature activation (not a payout height)
	260208, // developer payout height before 2.0.2
	274036, // 2.0.2 activation block
	274176, // payout height from 2.0.2 on
	288878, // 2.0.4 mint
	294206, // burn of the minted remainder
	295200, // PIP-10 era payout height
}

func vrtAssets(peg, usd, xbt uint64) []opr.AssetUint {
	return []opr.AssetUint{{Name: "PEG", Value: peg}, {Name: "USD", Value: usd}, {Name: "XBT", Value: xbt}}
}

func VerifSyncBlock() {
	vrt.Mode("fp", 1)
	AveragePeriod = 3
	AverageRequired = 1
	d, db := vrtNode(false)
	ctx := context.Background()
	height := vrtSyncHeights[vrt.Choose("height", len(vrtSyncHeights))]
	d.Sync.Synced = height - 1
	blockTime := time.Unix(1600000000, 0)
	miner, staker, burner, holder := vrtAddr(0xA1), vrtAddr(0xB2), vrtAddr(0xC3), vrtAddr(0xD4)

	// ---- ledger before the block (committed): a holder with pUSD in both snapshots-to-be
	tx0, _ := db.Begin()
	vrtSetBalance(tx0, holder, fat2.PTickerUSD, 1000000)
	vrtSetBalanceIn(tx0, "snapshot_current", holder, fat2.PTickerUSD, 1000000)
	vrtSetBalance(tx0, vrtMustAddr(specMintAddr), fat2.PTickerUSD, 77)
	// the previous block was graded (as on the real chain, earlier rates always exist)
	for _, t := range []string{"PEG", "pUSD", "pXBT"} {
		if _, err := tx0.Exec("INSERT INTO pn_rate (height, token, value) VALUES ($1, $2, $3)", height-1, t, 100000000); err != nil {
			panic(err)
		}
	}
	if err := tx0.Commit(); err != nil {
		panic(err)
	}
	// a conversion pUSD -> pXBT written in the previous block is in holding: it waits for the
	// first block with rates (heights after the transaction activation only)
	converter := vrt.KeyAddress(0, false)
	var heldHash *factom.Bytes32
	heldSrc := fat2.PTickerUSD
	if height-1 > specTxActivation {
		txh, _ := db.Begin()
		// its source is pUSD or PEG (the asset the staking and payout code handles apart)
		// (parameter pegsource: 0 = pUSD only, 1 = either; the second doubles the paths and is used where
		// the conversion itself is the subject, C07)
		if vrt.Param("pegsource", 0) == 1 && vrt.Choose("heldSourceIsPEG", 2) == 1 {
			heldSrc = fat2.PTickerPEG
		}
		vrtSetBalance(txh, converter, heldSrc, 5000)
		he := vrtSignedConversion(vrtHash(0x4C), blockTime.Unix()-600, 1000, heldSrc, fat2.PTickerXBT, false)
		if err := d.ApplyTransactionBlock(txh, vrtEBlock(height-1, blockTime.Unix()-600, []factom.Entry{he})); err != nil {
			panic("held conversion: " + err.Error())
		}
		if err := txh.Commit(); err != nil {
			panic(err)
		}
		heldHash = he.Hash
	}

	// ---- the verdicts
	oprState := vrt.Choose("opr", 3) // 0 no OPR entry block, 1 graded without winners, 2 one winner
	sprState := vrt.Choose("spr", 3)
	oPEG, oUSD, oXBT := vrt.URange("oprPEG", 0, 1<<50), vrt.URange("oprUSD", 1, 1<<50), vrt.URange("oprXBT", 0, 1<<50)
	sPEG, sUSD, sXBT := vrt.URange("sprPEG", 0, 1<<50), vrt.URange("sprUSD", 1, 1<<50), vrt.URange("sprXBT", 0, 1<<50)
	oprPay := vrt.Range("oprPayout", 0, 1<<40)
	sprPay := vrt.Range("sprPayout", 0, 1<<40)
	var ov *vrtGradedOPR
	if oprState > 0 {
		ov = &vrtGradedOPR{version: 5}
		if oprState == 2 {
			eh := vrtHash(0x61)
			w := vrt.NewGradingOPR(eh[:], oprPay, 0, &vrtRec{height: int32(height), addr: miner.String(), id: "miner", assets: vrtAssets(oPEG, oUSD, oXBT)})
			ov.winners = []*grader.GradingOPR{w}
			ov.graded = ov.winners
		}
	}
	var sv *vrtGradedSPR
	if sprState > 0 {
		sv = &vrtGradedSPR{version: 7}
		if sprState == 2 {
			eh := vrtHash(0x62)
			w := vrt.NewGradingSPR(eh[:], sprPay, 0, &vrtSRec{vrtRec{height: int32(height), addr: staker.String(), id: "staker", assets: vrtAssets(sPEG, sUSD, sXBT)}})
			sv.winners = []*graderStake.GradingSPR{w}
		}
	}
	// closed-era tolerance bands (0.1 % before the developer-reward activation, 10 % up to 2.0.2):
	// their float products are rounded; the engine forks per binade, so with both winners present
	// the rates of these eras are drawn from one binade-sized window to keep the path count small
	closedBoth := oprState == 2 && sprState == 2 && height >= specV20 && height < specV202
	bandOK := true
	if closedBoth {
		for _, r := range []uint64{oPEG, oUSD, oXBT, sPEG, sUSD, sXBT} {
			vrt.Assume(r >= 1<<26)
			vrt.Assume(r < 1<<27)
		}
		t := 0.1
		if height < specV20Dev {
			t = 0.001 // staking rates >= 100000 here
		}
		in := func(o, s uint64) bool {
			return vrt.AndB(float64(o) >= float64(s)*(1-t), float64(o) <= float64(s)*(1+t))
		}
		if !vrt.AndB(vrt.AndB(in(oPEG, sPEG), in(oUSD, sUSD)), in(oXBT, sXBT)) {
			bandOK = false
			vrt.Cover("closed-era-out-of-band")
		} else {
			vrt.Cover("closed-era-in-band")
		}
	}
	// Known finding D7 (closed era [2.0, 2.0.2)): when the winning OPR is outside the band the
	// rate routine's error is dropped (`return err` of the wrong variable): SyncBlock returns nil
	// right there and the block is committed without ANY of its effects (no rewards, burns,
	// transactions, holding pass, snapshot, developer payout).
	d7 := closedBoth && !bandOK
	tag := func(id string) string {
		if d7 {
			return id + "@D7"
		}
		return id
	}

	// ---- Factom requests
	oprC, sprC := config.OPRChain, config.SPRChain
	vrt.Stub(fxFactomDBlock, func(b *factom.DBlock, c context.Context, cl *factom.Client) error {
		b.Timestamp = blockTime
		b.EBlocks = nil
		// entry blocks sorted by chain id (OPR chain a642.. < SPR chain d5e3..)
		if oprState > 0 {
			b.EBlocks = append(b.EBlocks, factom.EBlock{ChainID: &oprC, Height: height, KeyMR: vrtHash(0x71), PrevKeyMR: vrtHash(0x72)})
		}
		if sprState > 0 {
			b.EBlocks = append(b.EBlocks, factom.EBlock{ChainID: &sprC, Height: height, KeyMR: vrtHash(0x73), PrevKeyMR: vrtHash(0x74)})
		}
		return nil
	})
	vrt.Stub(fxFactomEBlk, func(e *factom.EBlock, c context.Context, cl *factom.Client) error {
		// an entry block always lists at least one entry (the real multiFetch waits for one result per entry)
		var en factom.Entry
		en.ChainID = e.ChainID
		en.Hash = vrtHash(0x75)
		en.ExtIDs = []factom.Bytes{{1}, {2}, {3}}
		en.Content = factom.Bytes{4}
		e.Entries = []factom.Entry{en}
		return nil
	})
	vrt.Stub(fxFactomEntry, func(e *factom.Entry, c context.Context, cl *factom.Client) error { return nil })
	vrt.Stub(fxMultiFetch, func(e *factom.EBlock, cl *factom.Client) error {
		// summary of the real multiFetch (goroutines + channels are not interpreted):
		// populate the block, then every entry; first error wins
		var en factom.Entry
		en.ChainID = e.ChainID
		en.Hash = vrtHash(0x75)
		en.ExtIDs = []factom.Bytes{{1}, {2}, {3}}
		en.Content = factom.Bytes{4}
		e.Entries = []factom.Entry{en}
		return nil
	})
	burnAmt := vrt.URange("burn", 1, 1<<40)
	vrt.Stub(fxFactomFBlock, func(fb *factom.FBlock, c context.Context, cl *factom.Client) error {
		// one FCT burn: 1 FCT input, 1 EC output of 0 to the burn address, no FCT output
		var t factom.FactoidTransaction
		t.TransactionID = vrtHash(0x63)
		t.TimestampSalt = blockTime
		var in, out factom.FactoidTransactionIO
		in.Amount = burnAmt
		copy(in.Address[:], burner[:])
		out.Amount = 0
		copy(out.Address[:], BurnRCD[:])
		t.FCTInputs = []factom.FactoidTransactionIO{in}
		t.ECOutputs = []factom.FactoidTransactionIO{out}
		fb.Transactions = []factom.FactoidTransaction{t}
		fb.KeyMR = vrtHash(0x64)
		return nil
	})
	vrt.Stub(fxFactomFTx, func(t *factom.FactoidTransaction, c context.Context, cl *factom.Client) error { return nil })
	vrt.Stub(fxNewGrader, func(version uint8, h int32, prev []string) (grader.BlockGrader, error) {
		g := &vrtOPRGrader{version: version, height: h}
		if ov != nil {
			g.verdict = ov
		}
		return g, nil
	})
	vrt.Stub(fxNewGraderS, func(version uint8, h int32) (graderStake.BlockGrader, error) {
		g := &vrtSPRGrader{version: version, height: h}
		if sv != nil {
			g.verdict = sv
		}
		return g, nil
	})

	// ================= code under test =================
	tx, _ := db.Begin()
	err := d.SyncBlock(ctx, tx, height)
	// ====================================================
	vrt.Cover("ran")
	if err != nil {
		vrt.ObserveStr("error", err.Error())
	}
	// Known finding D10 (closed era): before 2.0.2 a holder-snapshot height whose block has no
	// rates does not fall back to earlier rates (the empty rate map is not nil) and fails the block.
	if height >= specV20 && height < specV202 && height%specSnapshotRate == 0 && !(oprState == 2 || sprState == 2) {
		vrt.Assert("C08.syncblock-succeeds-on-any-verdict@D10", err == nil)
	} else {
		vrt.Assert("C08.syncblock-succeeds-on-any-verdict", err == nil)
	}
	if err != nil {
		return
	}
	// ---- specification of the glue
	oprWin := oprState == 2
	sprWin := sprState == 2 && height >= specV20
	hasRates := oprWin
	if height >= specV20 {
		hasRates = oprWin || sprWin
	}
	if d7 {
		hasRates = false // the era's rule refuses out-of-band rates
	}
	var nRates int
	var pegRate, usdRate int64
	if qerr := tx.QueryRow(`SELECT COUNT(*), IFNULL(MAX(CASE WHEN token = 'PEG' THEN value ELSE -1 END), -1), IFNULL(MAX(CASE WHEN token = 'pUSD' THEN value ELSE -1 END), -1) FROM pn_rate WHERE height = ?`, height).Scan(&nRates, &pegRate, &usdRate); qerr != nil {
		panic(qerr)
	}
	vrt.Assert("C12.rates-recorded-iff-block-has-winners", (nRates > 0) == hasRates)
	if hasRates {
		vrt.Assert("C12.one-rate-row-per-asset-of-the-record", nRates == 3)
		switch {
		case height < specPEGPricing:
			vrt.Assert("C12.peg-price-phase-by-height", pegRate == 0)
		case height < specFreeFloat:
			// equation: no PEG exists in this ledger before the block => price 0
			vrt.Assert("C12.peg-price-phase-by-height", pegRate == 0)
		case height < specV20:
			vrt.Assert("C12.peg-price-phase-by-height", uint64(pegRate) == oPEG)
		}
		if height < specV20 || (oprWin && !sprWin) {
			vrt.Assert("C12.recorded-rates-are-the-winning-oprs", uint64(usdRate) == oUSD)
		} else if !oprWin && sprWin {
			vrt.Assert("C12.recorded-rates-are-the-winning-sprs-when-no-opr", uint64(usdRate) == sUSD)
		} else if height >= specV202 {
			// both, >= 2.0.2: 25 % band, out-of-band => 0
			inside := vrt.AndB(3*sUSD <= 4*oUSD, 4*oUSD <= 5*sUSD)
			vrt.Assert("C12.band-rule-of-the-era", uint64(usdRate) == vrt.IteU64(inside, oUSD, 0))
		} else {
			// both, closed era, in band: the OPR's rates
			vrt.Assert("C12.band-rule-of-the-era", uint64(usdRate) == oUSD)
		}
	}
	// ---- the holding pass runs iff the block recorded rates
	if heldHash != nil {
		_, st := vrtStatus(tx, heldHash)
		usd := uint64(vrtBalance(tx, converter, heldSrc))
		if hasRates {
			vrt.Cover("held-conversion-considered")
			// the rates this block recorded for the two assets of the conversion
			var rs, rd int64
			if qerr := tx.QueryRow(`SELECT IFNULL(MAX(CASE WHEN token = ? THEN value ELSE 0 END), 0), IFNULL(MAX(CASE WHEN token = 'pXBT' THEN value ELSE 0 END), 0) FROM pn_rate WHERE height = ?`, heldSrc.String(), height).Scan(&rs, &rd); qerr != nil {
				panic(qerr)
			}
			// a conversion whose result does not fit 63 bits is dropped and stays pending (D11, treated
			// as specified behaviour): possible here only for a PEG source in the equation-priced phase
			computable := true
			if rs > 0 && rd > 0 {
				out := new(big.Int).Mul(big.NewInt(1000), big.NewInt(rs))
				out.Div(out, big.NewInt(rd))
				computable = out.Cmp(new(big.Int).Lsh(big.NewInt(1), 62)) < 0
			}
			if computable {
				vrt.Assert("C07.held-conversion-is-considered-in-the-first-block-with-rates", st != 0)
			}
			// and it executes at the rates this block recorded: with both of its assets priced in the
			// block's own rate rows it is paid here (before PIP-10, where no average is involved)
			if rs > 0 && rd > 0 && computable && height < specPIP10 {
				vrt.Assert("C07.held-conversion-executes-at-the-rates-its-block-recorded", st == int64(height) && usd == 4000)
			}
		} else {
			vrt.Cover("held-conversion-waits")
			vrt.Assert("C12.block-without-rates-executes-no-pending-conversion", st == 0 && usd == 5000)
			vrt.Assert("C07.held-conversion-waits-for-a-block-with-rates", st == 0 && usd == 5000)
			// read as C06: held batches are swept once per window [last rated block, this rated block);
			// a block that records no rates must not consider them (the next rated block will, again)
			vrt.Assert("C06.held-batch-is-not-considered-by-a-block-without-rates", st == 0 && usd == 5000)
		}
	}
	// ---- rewards and burns
	pegOf := func(a factom.FAAddress) uint64 { return uint64(vrtBalance(tx, a, fat2.PTickerPEG)) }
	if oprWin {
		vrt.Assert(tag("C11.opr-winner-paid"), pegOf(miner) == uint64(oprPay))
	} else {
		vrt.Assert("C11.no-opr-winner-no-mining-reward", pegOf(miner) == 0)
	}
	if sprWin {
		vrt.Assert(tag("C11.spr-winner-paid-from-2.0"), pegOf(staker) == uint64(sprPay))
	} else {
		vrt.Assert("C11.no-staking-reward-before-2.0-or-without-winner", pegOf(staker) == 0)
	}
	burned := uint64(vrtBalance(tx, burner, fat2.PTickerFCT))
	if height < specV20 {
		vrt.Assert("C11.fct-burn-credits-pfct-before-2.0", burned == burnAmt)
	} else {
		vrt.Assert("C11.no-fct-burns-from-2.0", burned == 0)
	}
	// ---- scheduled routines: exactly at their heights
	var devRows int
	if qerr := tx.QueryRow(`SELECT COUNT(*) FROM pn_history_transaction WHERE from_address = ?`, func() []byte { a := vrtMustAddr(specDevs[0].addr); return a[:] }()).Scan(&devRows); qerr != nil {
		panic(qerr)
	}
	wantDev := height >= specV20Dev && height%specSnapshotRate == 0
	vrt.Assert(tag("C15.developer-payout-exactly-on-cadence"), (devRows == 1) == wantDev && devRows <= 1)
	mintUSD := uint64(vrtBalance(tx, vrtMustAddr(specMintAddr), fat2.PTickerUSD))
	switch height {
	case specV204:
		vrt.Assert("C15.mint-exactly-at-its-height", mintUSD == 77+vrtSpecMintAmount(fat2.PTickerUSD))
	case specV204Burn:
		vrt.Assert("C15.burn-of-mint-exactly-at-its-height", mintUSD == 0)
	default:
		vrt.Assert("C15.no-mint-adjustment-at-other-heights", mintUSD == 77)
	}
	// holder snapshot: snapshot_current is refreshed (and the holder paid when rates exist)
	var snapPast int
	if qerr := tx.QueryRow(`SELECT COUNT(*) FROM snapshot_past`).Scan(&snapPast); qerr != nil {
		panic(qerr)
	}
	// (when the block itself has no rates the most recent earlier rates are used)
	wantSnap := height >= specV20 && height%specSnapshotRate == 0
	vrt.Assert(tag("C14.snapshot-exactly-on-cadence"), (snapPast > 0) == wantSnap)
	if wantSnap {
		vrt.Assert(tag("C14.holder-paid-at-snapshot"), pegOf(holder) > 0 || (hasRates && usdRate <= 0))
	} else {
		vrt.Assert("C14.no-holder-payout-off-cadence", pegOf(holder) == 0)
	}
	vrt.Assert("C02.no-write-outside-block-tx", vrt.Monitor("db-write-during-tx") == 0)
}
