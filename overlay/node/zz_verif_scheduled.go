package node

import (
	"context"
	"encoding/hex"
	"fmt"
	"time"

	"github.com/Factom-Asset-Tokens/factom"
	"github.com/pegnet/pegnetd/fat/fat2"
	"github.com/pegnet/pegnetd/zzverif/vrt"
)

// H-scheduled: the scheduled issuance routines as units (C15, C04, C17):
// DevelopersPayouts, MintTokensForBalance, NullifyMintedTokens.
// (When they run is SyncBlock/DBlockSync glue: see the glue harness.)

// ---- specification tables (copied from the protocol documents at design time)
type specDev struct {
	addr string
	pct  uint64 // percent
}

var specDevs = []specDev{
	{"FA2i9WZqJnaKbJxDY2AZdVgewE28uCcSwoFt8LJCMtGCC7tpCa2n", 10},
	{"FA37cGXKWMtf2MmHy3n1rMCYeLVuR5MpDaP4VXVeFavjJCJLYYez", 19},
	{"FA2wDRieaBrWeZHVuXXWUHY6t9nKCVCCKAMS5xknLUExuVAq3ziS", 9},
	{"FA3LDEA5fcskV6ZoFpKE84qPcjd7GYjEnswGHMZXL1V9d14wmgh3", 9},
	{"FA381EygeEXjZzB6hNvxbE4oSUzHZMfvGByMZoW5UrG1gHEKJcNK", 8},
	{"FA2DxkaTx1k2oGfbTqvwVMScSHHac7JFRiBjRngjRnqQpeBxsLhA", 8},
	{"FA2Ersb227gn7eWJ2HPsHZ5QqxfMBZhSjwixQ44dAS17CtRXSDRU", 8},
	{"FA2eFEVUzTQZxNp3LYYgjPaaHUfGmuvShhtBdGB2BBWMeByPCmJy", 8},
	{"FA2T72oxBxXvnujNdsVUshqFM2qV1W4nJy33nkrpxbYQV8rFbUPP", 5},
	{"FA2cEaq1GdGfFjhymiTEzW24DocZFZHNBqe9qkT18YPaL5ZzsgRi", 5},
	{"FA2YhZBZbc4V858ao7dJuAqRC4iwA3MrbZs7BHUPK7Mq19yYdMwZ", 3},
	{"FA3PYuvrsDvkhnekokVNrgLn7JiL5pChSBTtR9gZB1mVGFVB7JRD", 3},
	{"FA2Wy7AzeoBuaXYnGu67xa5zdNkmqTbPryUgpy7qVPvj46GRZkep", 2},
	{"FA2a2nXgkBg7pL5wrgm99rLZDGFs2T8jfTgMuia6ep8ZMkVtPe8E", 3},
}

type specMintEntry struct {
	t   fat2.PTicker
	amt uint64 // whole units
}

var specMint = []specMintEntry{
	{fat2.PTickerPEG, 334509613}, {fat2.PTickerUSD, 3184409}, {fat2.PTickerKRW, 118}, {fat2.PTickerXAU, 1},
	{fat2.PTickerXAG, 599}, {fat2.PTickerXBT, 2}, {fat2.PTickerETH, 5476}, {fat2.PTickerLTC, 2004},
	{fat2.PTickerRVN, 13124813}, {fat2.PTickerXBC, 243}, {fat2.PTickerBNB, 3461}, {fat2.PTickerXLM, 45892},
	{fat2.PTickerADA, 1414096}, {fat2.PTickerXMR, 682}, {fat2.PTickerDASH, 6001}, {fat2.PTickerZEC, 2696},
	{fat2.PTickerEOS, 2059}, {fat2.PTickerLINK, 9110}, {fat2.PTickerATOM, 101}, {fat2.PTickerNEO, 2},
	{fat2.PTickerCRO, 164}, {fat2.PTickerETC, 5}, {fat2.PTickerVET, 22400000}, {fat2.PTickerHT, 5},
	{fat2.PTickerDCR, 1049}, {fat2.PTickerAUD, 9}, {fat2.PTickerNOK, 59}, {fat2.PTickerXTZ, 11117},
	{fat2.PTickerDOGE, 9870}, {fat2.PTickerALGO, 457602}, {fat2.PTickerDGB, 51175},
}

func vrtSpecMintAmount(t fat2.PTicker) uint64 {
	for _, m := range specMint {
		if m.t == t {
			return m.amt * 100000000
		}
	}
	return 0
}

func VerifScheduled() {
	d, db := vrtNode(false)
	which := vrt.Choose("routine", 3)
	ts := time.Unix(1600000000, 0)
	bystander := vrtAddr(0xC3)
	switch which {
	case 0: // ---------------- developer rewards
		heights := []uint32{260208, 274176} // first payout heights >= dev activation and >= 2.0.2
		height := heights[vrt.Choose("era", 2)]
		tx, _ := db.Begin()
		pre := make([]uint64, len(specDevs))
		for i, dv := range specDevs {
			// two of the addresses hold an arbitrary prior balance, the rest are new
			if i < 2 {
				pre[i] = vrt.URange("prior", 0, vrtMaxBal/8)
				vrtSetBalance(tx, vrtMustAddr(dv.addr), fat2.PTickerPEG, pre[i])
			}
		}
		byPre := vrt.URange("bystander", 0, vrtMaxBal/8)
		vrtSetBalance(tx, bystander, fat2.PTickerPEG, byPre)
		sum0 := vrtSum(tx, fat2.PTickerPEG)
		err := d.DevelopersPayouts(tx, vrtLog(), height, ts, DeveloperRewardAddreses)
		vrt.Cover("dev")
		vrt.Assert("C15.dev-payout-succeeds", err == nil)
		if err != nil {
			return
		}
		per := specDevPerBlock / 100
		mult := uint64(1)
		if height >= specV202 {
			mult = uint64(specSnapshotRate)
		}
		var total uint64
		for i, dv := range specDevs {
			want := per * dv.pct * mult
			total += want
			got := uint64(vrtBalance(tx, vrtMustAddr(dv.addr), fat2.PTickerPEG)) - pre[i]
			vrt.Assert("C15.dev-amount-per-address", got == want)
		}
		vrt.Assert("C15.dev-total", total == specDevPerBlock*mult && uint64(vrtSum(tx, fat2.PTickerPEG)-sum0) == total)
		vrt.Assert("C04.dev-bystander-untouched", uint64(vrtBalance(tx, bystander, fat2.PTickerPEG)) == byPre)
		// history: one coinbase record per developer with the credited amount
		var rows int
		var amt int64
		if err := tx.QueryRow(`SELECT COUNT(*), IFNULL(SUM(tx.to_amount),0) FROM pn_history_txbatch batch, pn_history_transaction tx WHERE batch.entry_hash = tx.entry_hash AND batch.height = ?`, height).Scan(&rows, &amt); err != nil {
			panic(err)
		}
		vrt.Assert("C17.dev-history-rows", rows == len(specDevs) && uint64(amt) == total)
	case 1: // ---------------- 2.0.4 mint
		tx, _ := db.Begin()
		mint := vrtMustAddr(specMintAddr)
		prior := vrt.URange("prior", 0, vrtMaxBal/2)
		vrtSetBalance(tx, mint, fat2.PTickerPEG, prior)
		byPre := vrt.URange("bystander", 0, vrtMaxBal/2)
		vrtSetBalance(tx, bystander, fat2.PTickerPEG, byPre)
		err := d.MintTokensForBalance(context.Background(), tx, specV204)
		vrt.Cover("mint")
		vrt.Assert("C15.mint-succeeds", err == nil)
		for tk := fat2.PTickerInvalid + 1; tk < fat2.PTickerMax; tk++ {
			want := vrtSpecMintAmount(tk)
			got := uint64(vrtBalance(tx, mint, tk))
			if tk == fat2.PTickerPEG {
				got -= prior
			}
			vrt.Assert("C15.mint-amount-per-asset", got == want)
		}
		vrt.Assert("C04.mint-bystander-untouched", uint64(vrtBalance(tx, bystander, fat2.PTickerPEG)) == byPre)
	case 2: // ---------------- burn of the remaining minted supply
		mint := vrtMustAddr(specMintAddr)
		// committed balances of the mint address: arbitrary for three listed assets
		listed := []fat2.PTicker{fat2.PTickerPEG, fat2.PTickerUSD, fat2.PTickerDGB}
		// an earlier state of the mint address, read the way the API reads it (get-pegnet-balances)
		// moments before the block: what the burn removes is the balance AS OF ITS BLOCK, whatever
		// was read from the ledger before
		txe, _ := db.Begin()
		for _, tk := range listed {
			vrtSetBalance(txe, mint, tk, vrt.URange("earlier", 0, vrtMaxBal))
		}
		if err := txe.Commit(); err != nil {
			panic(err)
		}
		if _, err := d.Pegnet.SelectBalances(&mint); err != nil {
			panic(err)
		}
		tx0, _ := db.Begin()
		for _, tk := range listed {
			vrtSetBalance(tx0, mint, tk, vrt.URange("left", 0, vrtMaxBal))
		}
		unlisted := vrt.URange("unlisted", 0, vrtMaxBal) // pEUR is not in the mint list
		vrtSetBalance(tx0, mint, fat2.PTickerEUR, unlisted)
		byPre := vrt.URange("bystander", 0, vrtMaxBal/2)
		vrtSetBalance(tx0, bystander, fat2.PTickerPEG, byPre)
		if err := tx0.Commit(); err != nil {
			panic(err)
		}
		tx, _ := db.Begin()
		err := d.NullifyMintedTokens(context.Background(), tx, specV204Burn)
		vrt.Cover("nullify-mint")
		vrt.Assert("C15.nullify-mint-succeeds", err == nil)
		for tk := fat2.PTickerInvalid + 1; tk < fat2.PTickerMax; tk++ {
			got := uint64(vrtBalance(tx, mint, tk))
			if vrtSpecMintAmount(tk) > 0 {
				vrt.Assert("C15.nullify-mint-leaves-zero", got == 0)
			} else if tk == fat2.PTickerEUR {
				vrt.Assert("C15.nullify-mint-keeps-unlisted", got == unlisted)
				// read as C04: the one-time burn destroys what remains of the minted supply and nothing else
				vrt.Assert("C04.scheduled-burn-destroys-only-the-minted-remainder", got == unlisted)
			}
		}
		vrt.Assert("C04.nullify-bystander-untouched", uint64(vrtBalance(tx, bystander, fat2.PTickerPEG)) == byPre)
	}
	_ = hex.EncodeToString
	_ = fmt.Sprint
	_ = factom.Bytes32{}
}
