package node

import (
	"context"
	"database/sql"
	"time"

	"github.com/Factom-Asset-Tokens/factom"
	"github.com/pegnet/pegnet/modules/grader"
	"github.com/pegnet/pegnet/modules/graderStake"
	"github.com/pegnet/pegnetd/config"
	"github.com/pegnet/pegnetd/fat/fat2"
	"github.com/pegnet/pegnetd/node/pegnet"
	"github.com/pegnet/pegnetd/zzverif/vrt"
)

// H-restart-chain: C09 beyond the averaging cache. A chain of three blocks WITH content is synced
// through the real SyncBlock (+ InsertSynced + commit, as DBlockSync does):
//   block h+1  graded; carries a conversion entry (goes into holding)
//   block h+2  NOT graded (no winners); carries another conversion entry and a transfer
//   block h+3  graded: both held conversions execute at its rates
// once by a daemon that lives through all three, and once with the daemon replaced by a freshly
// started one (state from the database only) at any subset of the two block boundaries. The ledgers
// must be identical: whatever a daemon keeps in memory between blocks must be recomputable from the
// database. Era: the current one (PIP-10 averages in force).
func VerifRestartChain() {
	vrt.Mode("fp", 1)
	AveragePeriod = 3
	AverageRequired = 1
	ctx := context.Background()
	// the chain lies in the current era, or its third block is the 2.0.2 activation block (274036):
	// anything a daemon decides once per process from the height it first sees then differs between
	// a daemon that lived through the activation and one started after it
	base := []uint32{295200, 274033}[vrt.Choose("chainAt", 2)]
	blockTime := time.Unix(1600000000, 0)
	miner, staker := vrtAddr(0xA1), vrtAddr(0xB2)
	converter := vrt.KeyAddress(0, false)
	B := vrt.KeyAddress(1, false)
	amt1 := vrt.URange("amt1", 1, 2000)
	amt2 := vrt.URange("amt2", 1, 2000)
	h1 := vrtSignedConversion(vrtHash(0x41), blockTime.Unix()+600, amt1, fat2.PTickerUSD, fat2.PTickerXBT, false)
	h2 := vrtSignedConversion(vrtHash(0x42), blockTime.Unix()+1200, amt2, fat2.PTickerUSD, fat2.PTickerXBT, false)
	te, _ := vrtMakeEntry(ekTransfer, vrtHash(0x43), blockTime.Unix()+1200, base+2, 300, B)
	// the last block also carries a transfer to the burn address (destroyed, not credited, from 2.0.2 on)
	be, _ := vrtMakeEntry(ekTransfer, vrtHash(0x44), blockTime.Unix()+1800, base+3, 250, vrtMustAddr(specBurnAddr))
	entriesAt := map[uint32][]factom.Entry{base + 1: {h1}, base + 2: {h2, te}, base + 3: {be}}
	graded := map[uint32]bool{base + 1: true, base + 2: false, base + 3: true}
	// the unrated block either has no OPR/SPR entry block at all, or has them without any winner
	// (it is then recorded in pn_grade although it carries no rates)
	emptyGraded := map[uint32]bool{base + 2: vrt.Choose("gapKind", 2) == 1}
	rU := vrt.URange("rateUSD", 1, 1<<30)
	rX := vrt.URange("rateXBT", 1, 1<<30)
	if base != 295200 {
		// before 2.0.2 the OPR/SPR tolerance band is float arithmetic (one path per binade): concrete rates
		rU, rX = 100000000, 950000000000
	}

	setup := func(db *sql.DB) *Pegnetd {
		d := vrtNodeOn(db)
		d.Sync.Synced = base
		tx0, _ := db.Begin()
		vrtSetBalance(tx0, converter, fat2.PTickerUSD, 10000)
		for _, t := range []string{"PEG", "pUSD", "pXBT"} {
			for k := uint32(0); k < 3; k++ {
				if _, err := tx0.Exec("INSERT INTO pn_rate (height, token, value) VALUES ($1, $2, $3)", base-k, t, 100000000); err != nil {
					panic(err)
				}
			}
		}
		if err := d.Pegnet.InsertSynced(tx0, d.Sync); err != nil {
			panic(err)
		}
		if err := tx0.Commit(); err != nil {
			panic(err)
		}
		return vrtResume(db) // every daemon of this harness was started on its database by the real start-up code
	}
	cur := base
	oprC, sprC, txC := config.OPRChain, config.SPRChain, config.TransactionChain
	vrt.Stub(fxFactomDBlock, func(b *factom.DBlock, c context.Context, cl *factom.Client) error {
		cur = b.Height
		b.Timestamp = blockTime.Add(time.Duration(b.Height-base) * 10 * time.Minute)
		b.EBlocks = nil
		if graded[b.Height] || emptyGraded[b.Height] {
			b.EBlocks = append(b.EBlocks, factom.EBlock{ChainID: &oprC, Height: b.Height, KeyMR: vrtHash(0x71), PrevKeyMR: vrtHash(0x72)})
		}
		if len(entriesAt[b.Height]) > 0 {
			b.EBlocks = append(b.EBlocks, factom.EBlock{ChainID: &txC, Height: b.Height, KeyMR: vrtHash(0x70), PrevKeyMR: vrtHash(0x76)})
		}
		if graded[b.Height] || emptyGraded[b.Height] {
			b.EBlocks = append(b.EBlocks, factom.EBlock{ChainID: &sprC, Height: b.Height, KeyMR: vrtHash(0x73), PrevKeyMR: vrtHash(0x74)})
		}
		return nil
	})
	vrt.Stub(fxFactomEBlk, func(e *factom.EBlock, c context.Context, cl *factom.Client) error {
		if *e.ChainID == txC {
			e.Timestamp = blockTime.Add(time.Duration(e.Height-base) * 10 * time.Minute)
			e.Entries = entriesAt[e.Height]
			return nil
		}
		var en factom.Entry
		en.ChainID = e.ChainID
		en.Hash = vrtHash(0x75)
		en.ExtIDs = []factom.Bytes{{1}, {2}, {3}}
		en.Content = factom.Bytes{4}
		e.Entries = []factom.Entry{en}
		return nil
	})
	vrt.Stub(fxFactomEntry, func(e *factom.Entry, c context.Context, cl *factom.Client) error { return nil })
	vrt.Stub(fxFactomFBlock, func(fb *factom.FBlock, c context.Context, cl *factom.Client) error {
		fb.KeyMR = vrtHash(0x64)
		return nil
	})
	vrt.Stub(fxFactomFTx, func(t *factom.FactoidTransaction, c context.Context, cl *factom.Client) error { return nil })
	vrt.Stub(fxNewGrader, func(version uint8, h int32, prev []string) (grader.BlockGrader, error) {
		g := &vrtOPRGrader{version: version, height: h}
		ov := &vrtGradedOPR{version: 5}
		if graded[uint32(h)] {
			w := vrt.NewGradingOPR(vrtHash(byte(0x60+uint32(h)-base))[:], 5000, 0, &vrtRec{height: h, addr: miner.String(), id: "miner", assets: vrtAssets(200000000, rU, rX)})
			ov.winners = []*grader.GradingOPR{w}
			ov.graded = ov.winners
		}
		g.verdict = ov
		return g, nil
	})
	vrt.Stub(fxNewGraderS, func(version uint8, h int32) (graderStake.BlockGrader, error) {
		g := &vrtSPRGrader{version: version, height: h}
		sv := &vrtGradedSPR{version: 7}
		if graded[uint32(h)] {
			w := vrt.NewGradingSPR(vrtHash(byte(0x68+uint32(h)-base))[:], 6000, 0, &vrtSRec{vrtRec{height: h, addr: staker.String(), id: "staker", assets: vrtAssets(200000000, rU, rX)}})
			sv.winners = []*graderStake.GradingSPR{w}
		}
		g.verdict = sv
		return g, nil
	})
	_ = cur
	apply := func(d *Pegnetd, db *sql.DB, h uint32) {
		tx, err := db.Begin()
		if err != nil {
			panic(err)
		}
		if err := d.SyncBlock(ctx, tx, h); err != nil {
			panic("block failed: " + err.Error())
		}
		d.Sync.Synced = h
		if err := d.Pegnet.InsertSynced(tx, d.Sync); err != nil {
			panic(err)
		}
		if err := tx.Commit(); err != nil {
			panic(err)
		}
	}
	// ---- the daemon that never stops
	dbA := vrt.NewFaultDB()
	dA := setup(dbA)
	for h := base + 1; h <= base+3; h++ {
		apply(dA, dbA, h)
	}
	// ---- the same chain with restarts at chosen block boundaries
	dbB := vrt.NewFaultDB()
	dB := setup(dbB)
	restarts := 0
	for h := base + 1; h <= base+3; h++ {
		apply(dB, dbB, h)
		if h < base+3 && vrt.Choose("restartAfter", 2) == 1 {
			// what a start of the daemon does with its database: Init (tables + migrations), then
			// the sync height is read back
			if err := (&pegnet.Pegnet{DB: dbB}).VrtCreateTables(); err != nil {
				panic("start-up: " + err.Error())
			}
			dB = vrtResume(dbB)
			restarts++
		}
	}
	if restarts > 0 {
		vrt.Cover("restarted")
	} else {
		vrt.Cover("no-restart")
	}
	vrt.Assert("C09.ledger-independent-of-restarts-on-a-chain-with-content", vrt.SameStore(vrt.Snapshot(dbA), vrt.Snapshot(dbB), "pn_sync_version")) // (that table holds wall-clock stamps)
	// and the held conversions did execute in the graded block (the comparison is not vacuous)
	_, st1 := vrtStatus(dbA, h1.Hash)
	_, st2 := vrtStatus(dbA, h2.Hash)
	vrt.Assert("C07.held-conversions-execute-in-the-next-graded-block", st1 == int64(base+3) && st2 == int64(base+3))
}
