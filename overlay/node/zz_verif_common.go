package node

import (
	"database/sql"
	"math/big"

	"github.com/Factom-Asset-Tokens/factom"
	"github.com/pegnet/pegnetd/fat/fat2"
	"github.com/pegnet/pegnetd/node/pegnet"
	"github.com/pegnet/pegnetd/zzverif/vrt"
	log "github.com/sirupsen/logrus"
)

// ---- protocol constants: a COPY of the specification (mainnet), so that edits of
// config/activations.go, devs.go, mint.go are detectable changes, not re-specification.
const (
	specTxActivation   uint32 = 213237
	specPEGPricing     uint32 = 214287
	specOneWayFCT      uint32 = 220346
	specConvLimit      uint32 = 222270
	specFreeFloat      uint32 = 222270
	specV4             uint32 = 231620
	specV20            uint32 = 258796
	specV20Dev         uint32 = 260118
	specSprSig         uint32 = 260118
	specOneWaySmall    uint32 = 274036
	specV202           uint32 = 274036
	specV204           uint32 = 288878
	specV204Burn       uint32 = 294206
	specPIP10          uint32 = 295190
	specSnapshotRate   uint32 = 144
	specBank           uint64 = 5000 * 1e8
	specHolderPerBlock uint64 = 4500 * 1e8
	specDevPerBlock    uint64 = 2000 * 1e8
	specBurnAddr              = "FA2BURNBABYBURNoooooooooooooooooooooooooooooooDGvNXy"
	specOldBurnAddr           = "FA1y5ZGuHSLmf2TqNf6hVMkPiNGyQpQDTFJvDLRkKQaoPo4bmbgu"
	specMintAddr              = "FA3j16WPCiqsAFHVZcEoL85Khh5RhPCNe6PWHBKgUxrx8MAnbNoy"
)

// small-cap assets made one-way at specOneWaySmall (with PEG)
var specSmallCaps = []fat2.PTicker{fat2.PTickerDCR, fat2.PTickerDGB, fat2.PTickerDOGE, fat2.PTickerHBAR, fat2.PTickerONT,
	fat2.PTickerRVN, fat2.PTickerBAT, fat2.PTickerALGO, fat2.PTickerBIF, fat2.PTickerETB, fat2.PTickerKES,
	fat2.PTickerNGN, fat2.PTickerRWF, fat2.PTickerTZS, fat2.PTickerUGX}

func vrtIsSmallCap(t fat2.PTicker) bool {
	for _, s := range specSmallCaps {
		if s == t {
			return true
		}
	}
	return false
}

// balances are bounded: total issuance per asset < 2^62 (INV I2, DESIGN §3)
const vrtMaxBal uint64 = 1 << 62

func vrtAddr(k byte) factom.FAAddress {
	var a factom.FAAddress
	for i := range a {
		a[i] = k
	}
	return a
}

func vrtHash(k byte) *factom.Bytes32 {
	var h factom.Bytes32
	for i := range h {
		h[i] = k
	}
	h[0] = 0xEE
	return &h
}

func vrtMustAddr(s string) factom.FAAddress {
	a, err := factom.NewFAAddress(s)
	if err != nil {
		panic("bad spec address " + s)
	}
	return a
}

// vrtLog: a real log entry natively (the code dereferences it); a nil stand-in under the
// symbolic engine, where logging is a no-op.
func vrtLog() *log.Entry {
	l := log.New()
	l.SetLevel(log.PanicLevel)
	return log.NewEntry(l)
}

// vrtNode builds a Pegnetd over a fresh ledger created by the real createTables.
func vrtNode(nocheck bool) (*Pegnetd, *sql.DB) {
	var db *sql.DB
	if nocheck {
		db = vrt.NewDBNoCheck()
	} else {
		db = vrt.NewDB()
	}
	p := &pegnet.Pegnet{DB: db}
	if err := p.VrtCreateTables(); err != nil {
		panic("createTables: " + err.Error())
	}
	d := new(Pegnetd)
	d.Pegnet = p
	d.Sync = new(pegnet.BlockSync)
	return d, db
}

type vrtExecer interface {
	Exec(query string, args ...interface{}) (sql.Result, error)
	QueryRow(query string, args ...interface{}) *sql.Row
}

func vrtTickerCol(t fat2.PTicker) string {
	s := t.String()
	b := []byte(s)
	for i := range b {
		if b[i] >= 'A' && b[i] <= 'Z' {
			b[i] += 'a' - 'A'
		}
	}
	return string(b) + "_balance"
}

// vrtSetBalance writes a pre-state balance directly (harness set-up, not code under test).
func vrtSetBalance(q vrtExecer, a factom.FAAddress, t fat2.PTicker, v uint64) {
	col := vrtTickerCol(t)
	_, err := q.Exec(`INSERT INTO pn_addresses ("address", "`+col+`") VALUES (?, ?) ON CONFLICT("address") DO UPDATE SET "`+col+`" = "excluded"."`+col+`"`, a[:], v)
	if err != nil {
		panic("vrtSetBalance: " + err.Error())
	}
}

// vrtBalance reads a balance as a signed number (so a negative one is visible); absent row = 0.
func vrtBalance(q vrtExecer, a factom.FAAddress, t fat2.PTicker) int64 {
	var v int64
	err := q.QueryRow(`SELECT `+vrtTickerCol(t)+` FROM pn_addresses WHERE address = ?`, a[:]).Scan(&v)
	if err == sql.ErrNoRows {
		return 0
	}
	if err != nil {
		panic("vrtBalance: " + err.Error())
	}
	return v
}

func vrtHasRow(q vrtExecer, a factom.FAAddress) bool {
	var n int
	if err := q.QueryRow(`SELECT COUNT(*) FROM pn_addresses WHERE address = ?`, a[:]).Scan(&n); err != nil {
		panic("vrtHasRow: " + err.Error())
	}
	return n > 0
}

// vrtRefConvert is the SPECIFICATION of a conversion: floor(amt*S/D), S=min(rate,avg), D=max(rate,avg) under PIP-10.
// ok=false when the spec says the conversion cannot be computed (zero rate/avg, overflow).
func vrtRefConvert(height uint32, amt uint64, fr, fa, tr, ta uint64) (out uint64, ok bool) {
	if fr == 0 || tr == 0 {
		return 0, false
	}
	S, D := fr, tr
	if height >= specPIP10 {
		if fa == 0 || ta == 0 {
			return 0, false
		}
		if fa < S {
			S = fa
		}
		if ta > D {
			D = ta
		}
	}
	n := new(big.Int).Mul(new(big.Int).SetUint64(amt), new(big.Int).SetUint64(S))
	n.Div(n, new(big.Int).SetUint64(D))
	if !n.IsInt64() {
		return 0, false
	}
	return n.Uint64(), true
}
