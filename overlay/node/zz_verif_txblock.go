package node

import (
	"database/sql"
	"time"

	"github.com/Factom-Asset-Tokens/factom"
	"github.com/pegnet/pegnetd/config"
	"github.com/pegnet/pegnetd/fat/fat2"
	"github.com/pegnet/pegnetd/zzverif/vrt"
)

// H-txblock: ApplyTransactionBlock on transaction-chain blocks whose entries are
// arbitrary: well-formed or not, signed by the right key or not (ideal-signature model
// of fat103.Validate), fresh or repeating an entry that is already executed / pending /
// rejected. Serves C05 (authorisation), C06 (at-most-once), C07b (conversions are held,
// not applied), C08 (the block always succeeds), C17 (status).

const specRCDE uint32 = 231620 // RCD-e accepted for heights > this

// entry kinds offered to the block
const (
	ekReplay      = iota // the prior entry again (same hash, same bytes)
	ekTransfer           // fresh, valid transfer A -> B
	ekConversion         // fresh, valid conversion pUSD -> pXBT
	ekGarbage            // content that does not parse
	ekWrongSigner        // valid batch, signed by another key
	ekNoSig              // no external ids at all
	ekExpired            // timestamp salt outside +-12h of the block time
	ekCorrupt            // signature bytes altered after signing
	ekTampered           // content replaced after signing
	ekOtherChain         // signed for another chain id
	ekRCDE               // signed with an RCD-e key (valid only above the activation)
	ekExtraExtID         // one more external id than signatures need
	ekTwoInputsOneSig    // two transactions with different input addresses, signed by the first one's key only
	ekTwoInputsTwoSigs   // the same, signed by both keys (still not a legal batch: one input address per batch)
	ekMalleatedTwin      // an RCD-e signed transfer followed by a third party's copy of it with the last signature byte altered
	ekCorruptTwin        // an ed25519 signed transfer followed by a copy whose signature bytes were altered (no longer verifies)
	ekHugeAmount         // a correctly signed transfer or conversion whose amount does not fit in int64
	ekReformattedTwin    // a valid transfer followed by a copy whose JSON content got extra whitespace (signature ids reused)
	ekTrailingBytes      // a correctly signed entry whose content is a valid batch followed by further bytes
	ekKinds
)

type vrtEntrySpec struct {
	kind     int
	hash     *factom.Bytes32
	amount   uint64
	conv     bool
	valid    bool // spec: well-formed, authorised, allowed at this height
	from     factom.FAAddress
	fromKey  int
}

// vrtRawBatch has the JSON shape of a batch without TransactionBatch's marshal-time validation
// (needed to write batches to the chain that the daemon must reject).
type vrtRawBatch struct {
	Version      uint               `json:"version"`
	Transactions []fat2.Transaction `json:"transactions"`
	Metadata     []byte             `json:"metadata,omitempty"`
}

func vrtTransferBatch(from, to factom.FAAddress, amt uint64) *fat2.TransactionBatch {
	b := new(fat2.TransactionBatch)
	b.Version = 1
	var t fat2.Transaction
	t.Input.Address = from
	t.Input.Type = fat2.PTickerUSD
	t.Input.Amount = amt
	t.Transfers = []fat2.AddressAmountTuple{{Address: to, Amount: amt}}
	b.Transactions = []fat2.Transaction{t}
	return b
}

func vrtConversionBatch(from factom.FAAddress, amt uint64, dst fat2.PTicker) *fat2.TransactionBatch {
	b := new(fat2.TransactionBatch)
	b.Version = 1
	var t fat2.Transaction
	t.Input.Address = from
	t.Input.Type = fat2.PTickerUSD
	t.Input.Amount = amt
	t.Conversion = dst
	b.Transactions = []fat2.Transaction{t}
	return b
}

// vrtMakeEntry builds a transaction-chain entry of the given kind.
func vrtMakeEntry(kind int, hash *factom.Bytes32, blockTime int64, height uint32, amt uint64, B factom.FAAddress) (factom.Entry, vrtEntrySpec) {
	chain := config.TransactionChain
	other := config.OPRChain
	var e factom.Entry
	e.ChainID = &chain
	e.Hash = hash
	// an entry's own timestamp is the block's start plus the minute it was written in (factomd);
	// the salt window is measured from the ENTRY's time
	entryTime := blockTime + vrt.Range("entryMinute", 0, 600)
	e.Timestamp = time.Unix(entryTime, 0)
	sp := vrtEntrySpec{kind: kind, hash: hash, amount: amt, valid: true, fromKey: 0}
	rcde := kind == ekRCDE
	A := vrt.KeyAddress(0, rcde)
	sp.from = A
	var batch *fat2.TransactionBatch
	if kind == ekConversion {
		batch = vrtConversionBatch(A, amt, fat2.PTickerXBT)
		sp.conv = true
	} else {
		batch = vrtTransferBatch(A, B, amt)
	}
	salt := blockTime + vrt.Range("saltOffset", -50000, 50000)
	inWindow := salt >= entryTime-43200 && salt <= entryTime+43200
	switch kind {
	case ekGarbage:
		e.Content = vrt.Blob(nil)
		vrt.SignEntry(&e, salt, []int{0}, []bool{false}, 0, false)
		sp.valid = false
	case ekWrongSigner:
		e.Content = vrt.Blob(batch)
		vrt.SignEntry(&e, salt, []int{1}, []bool{false}, 0, false)
		sp.valid = false
	case ekNoSig:
		e.Content = vrt.Blob(batch)
		sp.valid = false
	case ekExpired:
		e.Content = vrt.Blob(batch)
		vrt.Assume(!inWindow)
		vrt.SignEntry(&e, salt, []int{0}, []bool{false}, 0, false)
		sp.valid = false
	case ekCorrupt:
		e.Content = vrt.Blob(batch)
		vrt.SignEntry(&e, salt, []int{0}, []bool{false}, 0, true)
		sp.valid = false
	case ekTampered:
		e.Content = vrt.Blob(vrtTransferBatch(A, B, 1))
		vrt.SignEntry(&e, salt, []int{0}, []bool{false}, 0, false)
		e.Content = vrt.Blob(batch) // the attacker raises the amount after the holder signed
		vrt.Assume(amt != 1)
		sp.valid = false
	case ekOtherChain:
		e.Content = vrt.Blob(batch)
		e.ChainID = &other
		vrt.SignEntry(&e, salt, []int{0}, []bool{false}, 0, false)
		e.ChainID = &chain // a batch signed for another chain written to this one
		sp.valid = false
	case ekRCDE:
		e.Content = vrt.Blob(batch)
		vrt.SignEntry(&e, salt, []int{0}, []bool{true}, 0, false)
		sp.valid = inWindow && height > specRCDE
	case ekHugeAmount:
		// amounts are 64-bit unsigned on the wire; the ledger stores int64: anybody can sign this
		huge := vrt.URange("huge", 1<<63, 1<<64-1)
		if vrt.Choose("hugeKind", 2) == 1 {
			batch = vrtConversionBatch(A, huge, fat2.PTickerXBT)
		} else {
			batch = vrtTransferBatch(A, B, huge)
		}
		e.Content = vrt.Blob(vrtRawBatch{Version: 1, Transactions: batch.Transactions})
		vrt.SignEntry(&e, salt, []int{0}, []bool{false}, 0, false)
		sp.valid = false
	case ekTrailingBytes:
		// not a JSON document (one value, then more bytes); the signer signed exactly these bytes
		e.Content = vrt.WithTrailing(vrt.Blob(batch))
		vrt.SignEntry(&e, salt, []int{0}, []bool{false}, 0, false)
		sp.valid = false
	case ekExtraExtID:
		e.Content = vrt.Blob(batch)
		vrt.SignEntry(&e, salt, []int{0}, []bool{false}, 1, false)
		sp.valid = false
	case ekTwoInputsOneSig, ekTwoInputsTwoSigs:
		// tx[0] spends the signer's own funds, tx[1] spends somebody else's (B's) towards the signer
		two := vrtTransferBatch(A, B, amt)
		steal := vrtTransferBatch(B, A, vrt.URange("stolen", 0, vrtMaxBal/4))
		two.Transactions = append(two.Transactions, steal.Transactions[0])
		e.Content = vrt.Blob(vrtRawBatch{Version: 1, Transactions: two.Transactions})
		if kind == ekTwoInputsOneSig {
			vrt.SignEntry(&e, salt, []int{0}, []bool{false}, 0, false)
		} else {
			vrt.SignEntry(&e, salt, []int{0, 1}, []bool{false, false}, 0, false)
		}
		sp.valid = false
	default:
		e.Content = vrt.Blob(batch)
		vrt.SignEntry(&e, salt, []int{0}, []bool{false}, 0, false)
		sp.valid = inWindow
	}
	if !inWindow {
		sp.valid = false
	}
	vrt.SealEntry(&e)
	sp.hash = e.Hash
	return e, sp
}

type vrtRefLedger struct {
	bal    map[factom.FAAddress]uint64 // pUSD
	status map[factom.Bytes32]int64    // known entries: executed height / 0 pending / -1 rejected
}

// vrtRefApply: the specification of what a transaction-chain block does.
func (r *vrtRefLedger) apply(height uint32, specs []vrtEntrySpec, B factom.FAAddress) {
	for _, s := range specs {
		if !s.valid {
			continue // malformed or unauthorised: no effect whatsoever
		}
		if _, known := r.status[*s.hash]; known {
			continue // an entry changes the ledger at most once
		}
		if s.conv {
			r.status[*s.hash] = 0 // held for the next graded block
			continue
		}
		if r.bal[s.from] < s.amount {
			r.status[*s.hash] = -1
			continue
		}
		r.bal[s.from] -= s.amount
		r.bal[B] += s.amount
		r.status[*s.hash] = int64(height)
	}
}

func vrtStatus(q vrtExecer, h *factom.Bytes32) (rows int, executed int64) {
	if err := q.QueryRow(`SELECT COUNT(*), IFNULL(MAX(executed), 0) FROM pn_history_txbatch WHERE entry_hash = ?`, h[:]).Scan(&rows, &executed); err != nil {
		panic("vrtStatus: " + err.Error())
	}
	return
}

func vrtCount(q vrtExecer, table string, h *factom.Bytes32) int {
	var n int
	if err := q.QueryRow(`SELECT COUNT(*) FROM `+table+` WHERE entry_hash = ?`, h[:]).Scan(&n); err != nil {
		panic("vrtCount: " + err.Error())
	}
	return n
}

func vrtEBlock(height uint32, blockTime int64, entries []factom.Entry) *factom.EBlock {
	eb := new(factom.EBlock)
	chain := config.TransactionChain
	eb.ChainID = &chain
	eb.KeyMR = vrtHash(0x70)
	eb.Height = height
	eb.Timestamp = time.Unix(blockTime, 0)
	eb.Entries = entries
	return eb
}

func VerifTxBlock() {
	B := vrt.KeyAddress(1, false)
	maxEntries := vrt.Param("maxentries", 1)
	kindset := vrt.Param("kindset", 0) // 0: every kind; 1: replay / fresh transfer / fresh conversion only; 2: those + garbage + wrong signer
	faultMode := vrt.Param("fault", 0) == 1
	height := vrt.U32("height")
	vrt.Assume(height > specTxActivation && height < 1<<31-1)
	blockTime := vrt.Range("blockTime", 1500000000, 2000000000)

	ref := &vrtRefLedger{bal: map[factom.FAAddress]uint64{}, status: map[factom.Bytes32]int64{}}
	A := vrt.KeyAddress(0, false)
	Ae := vrt.KeyAddress(0, true)
	balA := vrt.URange("balA", 0, vrtMaxBal/4)
	balAe := vrt.URange("balAe", 0, vrtMaxBal/4)
	balB := vrt.URange("balB", 0, vrtMaxBal/4)
	ref.bal[A], ref.bal[Ae], ref.bal[B] = balA, balAe, balB

	// ---- earlier block (height-1), committed: may already contain entry H1 so that it is
	// now executed, pending (held) or rejected — a state reached through the real code
	prior := vrt.Choose("prior", 4) // 0 none, 1 executed transfer, 2 held conversion, 3 rejected transfer
	H1 := vrtHash(1)
	var priorEntry factom.Entry
	var priorSpec vrtEntrySpec
	amt1 := vrt.URange("amt1", 0, vrtMaxBal/4)
	if prior != 0 {
		k := ekTransfer
		if prior == 2 {
			k = ekConversion
		}
		priorEntry, priorSpec = vrtMakeEntry(k, H1, blockTime-600, height-1, amt1, B)
		H1 = priorEntry.Hash
		vrt.Assume(priorSpec.valid)
		if prior == 1 {
			vrt.Assume(amt1 <= balA)
		}
		if prior == 3 {
			vrt.Assume(amt1 > balA)
		}
		ref.apply(height-1, []vrtEntrySpec{priorSpec}, B)
	}
	// setup builds the committed ledger before the block under test on a given database
	setup := func(db *sql.DB) *Pegnetd {
		d := vrtNodeOn(db)
		tx0, err := db.Begin()
		if err != nil {
			panic(err)
		}
		vrtSetBalance(tx0, A, fat2.PTickerUSD, balA)
		vrtSetBalance(tx0, Ae, fat2.PTickerUSD, balAe)
		vrtSetBalance(tx0, B, fat2.PTickerUSD, balB)
		if prior != 0 {
			if err := d.ApplyTransactionBlock(tx0, vrtEBlock(height-1, blockTime-600, []factom.Entry{priorEntry})); err != nil {
				panic("prior block: " + err.Error())
			}
		}
		if err := tx0.Commit(); err != nil {
			panic(err)
		}
		return d
	}

	// ---- the block under test
	n := 1 + vrt.Choose("nentries", maxEntries)
	var entries []factom.Entry
	var specs []vrtEntrySpec
	var twin *factom.Bytes32
	d16 := false // the block carries a malleated copy of a validly RCD-e signed entry (known finding D16)
	fresh := byte(2)
	for i := 0; i < n; i++ {
		var kind int
		if kindset == 1 {
			kind = vrt.Choose("kind3", 3)
		} else if kindset == 2 {
			// the three above plus the two simplest entries the daemon must ignore: how a block treats an
			// entry must not depend on which other entries (decodable or not, authorised or not) precede it
			kind = []int{ekReplay, ekTransfer, ekConversion, ekGarbage, ekWrongSigner}[vrt.Choose("kind5", 5)]
		} else {
			kind = vrt.Choose("kind", ekKinds)
		}
		if kind == ekReplay {
			if prior == 0 {
				vrt.Assume(i > 0) // nothing to replay yet: repeat the previous entry of this block
				entries = append(entries, entries[i-1])
				specs = append(specs, specs[i-1])
				continue
			}
			// the very same entry again; the block time differs, so only its salt decides validity now
			e := priorEntry
			e.Timestamp = time.Unix(blockTime, 0)
			sp := vrtEntrySpec{kind: ekReplay, hash: H1, amount: amt1, conv: prior == 2, valid: true, from: A}
			entries = append(entries, e)
			specs = append(specs, sp)
			continue
		}
		h := vrtHash(fresh)
		fresh++
		if kind == ekReformattedTwin {
			// the holder signed the exact bytes of E1; a third party re-publishes them reformatted
			// (whitespace), re-using the external ids: different bytes, different hash, NOT signed
			e1, sp1 := vrtMakeEntry(ekTransfer, h, blockTime, height, vrt.URange("amt", 0, vrtMaxBal/4), B)
			e2 := e1
			e2.Content = vrt.Reformat(e1.Content)
			e2.Hash = vrtHash(fresh)
			fresh++
			vrt.SealEntry(&e2)
			sp2 := sp1
			sp2.kind, sp2.hash, sp2.valid = ekReformattedTwin, e2.Hash, false
			entries = append(entries, e1, e2)
			specs = append(specs, sp1, sp2)
			continue
		}
		if kind == ekCorruptTwin {
			// a genuine entry, then the same salt/RCD/content with a destroyed signature under a new
			// hash: whatever the daemon remembers about the first, the second is not authorised
			e1, sp1 := vrtMakeEntry(ekTransfer, h, blockTime, height, vrt.URange("amt", 0, vrtMaxBal/4), B)
			e2 := e1
			vrt.MalleateSig(&e2)
			e2.Hash = vrtHash(fresh)
			fresh++
			vrt.SealEntry(&e2)
			sp2 := sp1
			sp2.kind, sp2.hash, sp2.valid = ekCorruptTwin, e2.Hash, false
			entries = append(entries, e1, e2)
			specs = append(specs, sp1, sp2)
			continue
		}
		if kind == ekMalleatedTwin {
			// the holder signs ONE transfer; a third party re-publishes it with the signature's last
			// byte changed (new bytes, new entry hash). One authorisation may take effect once.
			e1, sp1 := vrtMakeEntry(ekRCDE, h, blockTime, height, vrt.URange("amt", 0, vrtMaxBal/4), B)
			e2 := e1
			vrt.MalleateSig(&e2)
			e2.Hash = vrtHash(fresh)
			fresh++
			vrt.SealEntry(&e2)
			sp2 := sp1
			sp2.kind, sp2.hash, sp2.valid = ekMalleatedTwin, e2.Hash, false
			entries = append(entries, e1, e2)
			specs = append(specs, sp1, sp2)
			if sp1.valid {
				d16 = true
				twin = e2.Hash
			}
			continue
		}
		e, sp := vrtMakeEntry(kind, h, blockTime, height, vrt.URange("amt", 0, vrtMaxBal/4), B)
		entries = append(entries, e)
		specs = append(specs, sp)
	}
	if faultMode {
		// ---- C10: one DB-API call of the block application fails once. Either the block fails
		// (and is rolled back and retried by the sync loop) or nothing differs from the fault-free run.
		dbR := vrt.NewFaultDB()
		dR := setup(dbR)
		c0 := vrt.Monitor("dbcalls")
		txR, _ := dbR.Begin()
		errR := dR.ApplyTransactionBlock(txR, vrtEBlock(height, blockTime, entries))
		nCalls := vrt.Monitor("dbcalls") - c0
		if errR != nil {
			return
		}
		if cerr := txR.Commit(); cerr != nil {
			panic(cerr)
		}
		dbF := vrt.NewFaultDB()
		dF := setup(dbF)
		vrt.FaultAt(vrt.Monitor("dbcalls") + vrt.Choose("point", nCalls))
		txF, berr := dbF.Begin()
		if berr != nil {
			vrt.Cover("fault-failed-block")
			return
		}
		errF := dF.ApplyTransactionBlock(txF, vrtEBlock(height, blockTime, entries))
		if errF == nil {
			errF = txF.Commit()
		} else {
			txF.Rollback()
		}
		if errF != nil {
			// the sync loop rolls the block back and retries it with the same daemon
			vrt.Cover("fault-failed-block")
			tx2, err2 := dbF.Begin()
			if err2 == nil {
				err2 = dF.ApplyTransactionBlock(tx2, vrtEBlock(height, blockTime, entries))
			}
			if err2 == nil {
				err2 = tx2.Commit()
			}
			vrt.Assert("C10.retry-after-statement-fault-succeeds", err2 == nil)
			if err2 == nil {
				vrt.Assert("C10.retry-after-statement-fault-reaches-the-fault-free-ledger", vrt.SameStore(vrt.Snapshot(dbF), vrt.Snapshot(dbR)))
			}
			return
		}
		vrt.Cover("fault-survived")
		sameAsFaultFree := vrt.SameStore(vrt.Snapshot(dbF), vrt.Snapshot(dbR))
		vrt.Assert("C10.statement-fault-fails-the-block-or-changes-nothing", sameAsFaultFree)
		// read as C02: a block that reports success holds ALL of its effects (never a part of them)
		vrt.Assert("C02.block-reported-applied-holds-all-its-effects", sameAsFaultFree)
		return
	}
	db := vrt.NewDB()
	d := setup(db)
	tx, err := db.Begin()
	if err != nil {
		panic(err)
	}
	snap0 := vrt.Snapshot(tx)

	// ================= code under test =================
	err = d.ApplyTransactionBlock(tx, vrtEBlock(height, blockTime, entries))
	// ====================================================

	if err != nil {
		vrt.Cover("block-error")
		vrt.ObserveStr("error", err.Error())
	}
	vrt.Assert("C08.transaction-block-never-fails", err == nil)
	// read as C05/C06: an entry that is not authorised, or that repeats one seen before (in an earlier
	// block or earlier in this one, whatever became of the first copy), is IGNORED - it has no effect
	// and in particular does not keep the block from being applied
	vrt.Assert("C06.repeated-entries-are-ignored-not-fatal", err == nil)
	vrt.Assert("C05.unauthorised-entries-are-ignored-not-fatal", err == nil)
	if err != nil {
		return
	}
	pre := map[factom.Bytes32]int64{}
	for k, v := range ref.status {
		pre[k] = v
	}
	ref.apply(height, specs, B)
	if d16 {
		// Known finding D16: the library verifies only the first 64 bytes of an RCD-e signature and
		// replay protection is keyed on the entry hash, so the altered copy is a new, valid entry:
		// the holder's single authorisation is executed again (once per copy, while the salt is fresh).
		vrt.Cover("malleated-twin")
		for _, a := range []factom.FAAddress{A, Ae, B} {
			vrt.Assert("C05.one-signed-authorisation-moves-funds-once@D16", uint64(vrtBalance(tx, a, fat2.PTickerUSD)) == ref.bal[a])
		}
		rows, _ := vrtStatus(tx, twin)
		vrt.Assert("C06.copy-of-an-executed-authorisation-is-not-a-new-entry@D16", rows == 0)
		return
	}

	anyValid := false
	for _, s := range specs {
		_, was := pre[*s.hash]
		if s.valid && !was {
			anyValid = true
		}
	}
	if !anyValid {
		vrt.Cover("all-inert")
		// nothing in this block may touch the ledger: malformed, unauthorised and repeated entries are inert
		vrt.Assert("C05.unauthorised-or-repeated-entries-leave-no-trace", vrt.SameStore(snap0, vrt.Snapshot(tx)))
	} else {
		vrt.Cover("some-effective")
	}
	for _, a := range []factom.FAAddress{A, Ae, B} {
		vrt.Assert("C05.balances-follow-authorised-entries-only", uint64(vrtBalance(tx, a, fat2.PTickerUSD)) == ref.bal[a])
	}
	seen := map[factom.Bytes32]bool{}
	for _, s := range specs {
		if seen[*s.hash] {
			continue
		}
		seen[*s.hash] = true
		rows, executed := vrtStatus(tx, s.hash)
		want, known := ref.status[*s.hash]
		if !known {
			vrt.Assert("C05.rejected-entry-has-no-history", rows == 0 && vrtCount(tx, "pn_transaction_batch_holding", s.hash) == 0 && vrtCount(tx, "pn_address_transactions", s.hash) == 0)
			if s.kind == ekTrailingBytes || s.kind == ekReformattedTwin || s.kind == ekHugeAmount {
				vrt.Assert("C20.entry-that-is-not-a-canonical-batch-is-not-accepted", rows == 0)
			}
			continue
		}
		vrt.Assert("C06.one-history-record-per-entry", rows == 1)
		vrt.Assert("C17.status-matches-ledger", executed == want)
		held := vrtCount(tx, "pn_transaction_batch_holding", s.hash)
		if s.conv {
			vrt.Assert("C07.conversion-held-not-applied", want == 0 && held == 1 && vrtCount(tx, "pn_address_transactions", s.hash) == 0)
		} else {
			vrt.Assert("C06.transfer-never-held", held == 0)
			rel := vrtCount(tx, "pn_address_transactions", s.hash)
			vrt.Assert("C06.relations-iff-executed", (rel > 0) == (want > 0))
		}
	}
	vrt.Assert("C02.no-write-outside-block-tx", vrt.Monitor("db-write-during-tx") == 0)
	_ = sql.ErrNoRows
}
