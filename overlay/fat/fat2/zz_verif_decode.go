package fat2

import (
	"encoding/json"
	"github.com/Factom-Asset-Tokens/factom"
	"github.com/pegnet/pegnetd/zzverif/vrt"
)

// VerifTxDecode: C20 — the transaction decoder accepts exactly the canonical objects. A JSON
// object of 1..4 members drawn (with repetition, in any order) from input / transfers /
// conversion / metadata / an unknown key is handed to the real (*Transaction).UnmarshalJSON.
// Canonical = every member at most once, no unknown member, an input, and exactly one of
// transfers and conversion (whatever the transfers value is: a list, [] or null), metadata optional.
func VerifTxDecode() {
	var A, B factom.FAAddress
	for i := range A {
		A[i], B[i] = 0xA1, 0xB2
	}
	in := TypedAddressAmountTuple{Address: A, Amount: 5, Type: PTickerUSD}
	n := 1 + vrt.Choose("members", vrt.Param("maxmembers", 4))
	var keys []string
	var vals [][]byte
	count := map[string]int{}
	for i := 0; i < n; i++ {
		switch vrt.Choose("member", 5) {
		case 0:
			keys, vals = append(keys, "input"), append(vals, vrt.Blob(in))
			count["input"]++
		case 1:
			keys = append(keys, "transfers")
			switch vrt.Choose("transfersValue", 3) {
			case 0:
				vals = append(vals, vrt.Blob([]AddressAmountTuple{{Address: B, Amount: 5}}))
			case 1:
				vals = append(vals, vrt.RawJSON("[]"))
			default:
				vals = append(vals, vrt.RawJSON("null"))
			}
			count["transfers"]++
		case 2:
			keys, vals = append(keys, "conversion"), append(vals, vrt.Blob(PTickerXBT))
			count["conversion"]++
		case 3:
			keys, vals = append(keys, "metadata"), append(vals, vrt.RawJSON(`"m"`))
			count["metadata"]++
		default:
			keys, vals = append(keys, "extra"), append(vals, vrt.RawJSON("1"))
			count["extra"]++
		}
	}
	doc := vrt.JSONDoc(keys, vals)
	var t Transaction
	err := t.UnmarshalJSON(doc)
	canonical := count["input"] == 1 && count["extra"] == 0 && count["metadata"] <= 1 &&
		count["transfers"]+count["conversion"] == 1
	if canonical {
		vrt.Cover("canonical")
		vrt.Assert("C20.transaction-decoder-accepts-canonical-objects", err == nil)
		if err == nil {
			vrt.Assert("C20.transaction-decoder-accepts-canonical-objects", t.Input.Amount == 5 && t.Input.Type == PTickerUSD && (count["conversion"] == 1) == (t.Conversion == PTickerXBT))
		}
	} else {
		vrt.Cover("not-canonical")
		vrt.Assert("C20.transaction-decoder-refuses-every-other-object", err != nil)
	}
}

// VerifObjDecode: the same question for the other two length-checked decoders:
//   kind 0  (*TransactionBatch).UnmarshalJSON  members version / transactions / metadata / unknown
//           (accepted: exactly version and transactions, once each; the decoder as written never
//           accepts a metadata member)
//   kind 1  (*AddressAmountTuple).UnmarshalJSON members address / amount / unknown
func VerifObjDecode() {
	var A, B factom.FAAddress
	for i := range A {
		A[i], B[i] = 0xA1, 0xB2
	}
	kind := vrt.Choose("decoder", 2)
	n := 1 + vrt.Choose("members", vrt.Param("maxmembers", 4))
	var keys []string
	var vals [][]byte
	count := map[string]int{}
	add := func(k string, v []byte) {
		keys, vals = append(keys, k), append(vals, v)
		count[k]++
	}
	var tx Transaction
	tx.Input = TypedAddressAmountTuple{Address: A, Amount: 5, Type: PTickerUSD}
	tx.Transfers = []AddressAmountTuple{{Address: B, Amount: 5}}
	for i := 0; i < n; i++ {
		m := vrt.Choose("member", 4)
		if kind == 0 {
			switch m {
			case 0:
				add("version", vrt.RawJSON("1"))
			case 1:
				add("transactions", vrt.Blob([]Transaction{tx}))
			case 2:
				add("metadata", vrt.RawJSON(`"m"`))
			default:
				add("extra", vrt.RawJSON("1"))
			}
		} else {
			switch m {
			case 0:
				add("address", vrt.Blob(B))
			case 1:
				add("amount", vrt.RawJSON("5"))
			default:
				add("extra", vrt.RawJSON("1"))
			}
		}
	}
	doc := vrt.JSONDoc(keys, vals)
	var err error
	canonical := false
	if kind == 0 {
		var b TransactionBatch
		err = b.UnmarshalJSON(doc)
		canonical = count["version"] == 1 && count["transactions"] == 1 && len(keys) == 2
		if canonical && err == nil {
			vrt.Assert("C20.batch-decoder-accepts-canonical-objects", b.Version == 1 && len(b.Transactions) == 1)
		}
	} else {
		var t AddressAmountTuple
		err = t.UnmarshalJSON(doc)
		canonical = count["address"] == 1 && count["amount"] == 1 && len(keys) == 2
		if canonical && err == nil {
			vrt.Assert("C20.tuple-decoder-accepts-canonical-objects", t.Amount == 5 && t.Address == B)
		}
	}
	if canonical {
		vrt.Cover("canonical")
		vrt.Assert("C20.object-decoder-accepts-canonical-objects", err == nil)
	} else {
		vrt.Cover("not-canonical")
		vrt.Assert("C20.object-decoder-refuses-every-other-object", err != nil)
	}
}

// VerifTickerDecode: C20 "known tickers". The real (*PTicker).UnmarshalJSON is handed the
// canonical spelling of an asset name and near misses of it (other case, padded, clipped,
// prefix dropped/added), quoted as in a JSON document. Accepted exactly the canonical spelling,
// decoding to that asset. (The names are written out here as specification.)
func VerifTickerDecode() {
	names := []struct {
		s string
		t PTicker
	}{{"PEG", PTickerPEG}, {"pUSD", PTickerUSD}, {"pXBT", PTickerXBT}, {"pFCT", PTickerFCT}, {"pDCR", PTickerDCR}, {"pNGN", PTickerMax - 1}}
	nm := names[vrt.Choose("name", len(names))]
	lower := func(s string) string {
		b := []byte(s)
		for i := range b {
			if b[i] >= 'A' && b[i] <= 'Z' {
				b[i] += 'a' - 'A'
			}
		}
		return string(b)
	}
	upper := func(s string) string {
		b := []byte(s)
		for i := range b {
			if b[i] >= 'a' && b[i] <= 'z' {
				b[i] -= 'a' - 'A'
			}
		}
		return string(b)
	}
	variants := []string{nm.s, lower(nm.s), upper(nm.s), nm.s + " ", " " + nm.s, nm.s[1:], "p" + nm.s, nm.s[:len(nm.s)-1], nm.s + "x"}
	k := vrt.Choose("spelling", len(variants))
	text := variants[k]
	var t PTicker
	err := t.UnmarshalJSON([]byte(`"` + text + `"`))
	if text == nm.s {
		vrt.Cover("canonical-name")
		vrt.Assert("C20.canonical-ticker-name-is-accepted-as-that-asset", err == nil && t == nm.t)
		return
	}
	// a near miss may happen to be another asset's canonical name ("p"+"PEG" is not; "pUSD"[1:] = "USD" is not)
	vrt.Cover("near-miss")
	vrt.Assert("C20.only-canonical-ticker-names-are-accepted", err != nil)
}

// VerifTupleRoundTrip: C20 "re-encoding any accepted batch yields an entry that decodes to the same
// transactions", at the level where the encoder is generic (struct tags) and the decoder is
// hand-written: a transfer output tuple with an arbitrary amount - 0 included - is encoded by
// encoding/json (object-level model: members follow the tags) and decoded by the real
// UnmarshalJSON; it must be accepted and equal. (The input tuple's decoder reads its ticker through a
// typed field, which the document model does not follow: outside.)
func VerifTupleRoundTrip() {
	vrt.Mode("jsonobj", 1)
	var A factom.FAAddress
	for i := range A {
		A[i] = 0xA1
	}
	amt := vrt.U64("amount")
	vrt.Cover("output-tuple")
	t := AddressAmountTuple{Address: A, Amount: amt}
	data, err := json.Marshal(t)
	vrt.Assert("C20.encoded-tuple-decodes-to-the-same-tuple", err == nil)
	var u AddressAmountTuple
	derr := u.UnmarshalJSON(data)
	vrt.Assert("C20.encoded-tuple-decodes-to-the-same-tuple", derr == nil && u.Address == A && u.Amount == amt)
}
