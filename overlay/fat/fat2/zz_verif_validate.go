package fat2

import (
	"math/big"

	"github.com/Factom-Asset-Tokens/factom"
	"github.com/pegnet/pegnetd/zzverif/vrt"
)

// VerifValidate: C20b — structural validation of a decoded batch (Transaction.Validate,
// TransactionBatch.ValidData) accepts exactly the canonical shapes.
func VerifValidate() {
	maxTx := vrt.Param("maxtx", 2)
	maxOut := vrt.Param("maxout", 2)
	var A, B, zero factom.FAAddress
	for i := range A {
		A[i] = 0xA1
		B[i] = 0xB2
	}
	cb := factom.FsAddress{}.FAAddress() // the reserved coinbase/burn input
	addrs := []factom.FAAddress{A, B, cb, zero}
	b := new(TransactionBatch)
	b.Version = uint(vrt.URange("version", 0, 3))
	n := vrt.Choose("ntx", maxTx+1)
	for i := 0; i < n; i++ {
		var t Transaction
		t.Input.Address = addrs[vrt.Choose("input", len(addrs))]
		t.Input.Type = PTicker(vrt.Range("type", 0, int64(PTickerMax)-1)) // the parser only yields known tickers or 0
		t.Input.Amount = vrt.U64("amount")
		t.Conversion = PTicker(vrt.Range("conversion", 0, int64(PTickerMax)-1))
		m := vrt.Choose("nout", maxOut+1)
		for j := 0; j < m; j++ {
			t.Transfers = append(t.Transfers, AddressAmountTuple{Address: addrs[vrt.Choose("to", 2)], Amount: vrt.U64("out")})
		}
		b.Transactions = append(b.Transactions, t)
	}
	err := b.ValidData()

	// ---- specification
	want := vrt.AndB(b.Version == 1, n >= 1)
	for i := 0; i < n; i++ {
		t := b.Transactions[i]
		ok := t.Input.Address != cb
		empty := vrt.AndB(t.Input.Address == zero, vrt.AndB(t.Input.Amount == 0, t.Input.Type == PTickerInvalid))
		ok = vrt.AndB(ok, vrt.NotB(empty))
		hasConv := t.Conversion != PTickerInvalid
		if len(t.Transfers) == 0 {
			// conversion: a type is required and must differ from the input type
			ok = vrt.AndB(ok, vrt.AndB(hasConv, t.Conversion != t.Input.Type))
		} else {
			// transfer: no conversion type, outputs sum to the input exactly
			sum := new(big.Int)
			for _, tr := range t.Transfers {
				sum.Add(sum, new(big.Int).SetUint64(tr.Amount))
			}
			ok = vrt.AndB(ok, vrt.AndB(vrt.NotB(hasConv), sum.Cmp(new(big.Int).SetUint64(t.Input.Amount)) == 0))
		}
		ok = vrt.AndB(ok, t.Input.Address == b.Transactions[0].Input.Address) // one input address per batch
		want = vrt.AndB(want, ok)
	}
	if err == nil {
		vrt.Cover("accepted")
	} else {
		vrt.Cover("rejected")
	}
	vrt.Assert("C20.structural-validation-accepts-exactly-canonical-batches", (err == nil) == want)
}
