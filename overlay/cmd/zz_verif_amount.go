package cmd

import (
	"math/big"

	"github.com/pegnet/pegnetd/zzverif/vrt"
)

// VerifAmount: C20a — FactoidToFactoshi converts a decimal string to base units exactly
// or rejects it; it never returns a different number.
func VerifAmount() {
	vrt.Mode("fp", 1) // should the routine ever compute in float64, IEEE rounding is followed exactly
	maxInt := vrt.Param("maxint", 20)
	maxFrac := vrt.Param("maxfrac", 9)
	il := vrt.Choose("intDigits", maxInt+1)
	fl := vrt.Choose("fracDigits", maxFrac+1) // 0 = no fractional part
	ip := vrt.Digits("i", il)
	fp := vrt.Digits("f", fl)
	s := ip
	if fl > 0 {
		s = ip + "." + fp
	}
	vrt.Assume(len(s) > 0)
	got, err := FactoidToFactoshi(s)
	vrt.ObserveU64("got", got)

	// ---- exact value: (int part) * 1e8 + (fraction padded to 8 digits)
	exact := new(big.Int)
	for k := 0; k < il; k++ {
		exact.Mul(exact, big.NewInt(10))
		exact.Add(exact, big.NewInt(int64(ip[k]-'0')))
	}
	exact.Mul(exact, big.NewInt(100000000))
	if fl > 0 && fl <= 8 {
		fr := new(big.Int)
		for k := 0; k < fl; k++ {
			fr.Mul(fr, big.NewInt(10))
			fr.Add(fr, big.NewInt(int64(fp[k]-'0')))
		}
		for k := fl; k < 8; k++ {
			fr.Mul(fr, big.NewInt(10))
		}
		exact.Add(exact, fr)
	}
	if fl > 8 {
		vrt.Cover("too-many-decimals")
		vrt.Assert("C20.more-than-8-decimals-rejected", err != nil)
		return
	}
	if err != nil {
		vrt.Cover("rejected")
		return // rejecting is always allowed
	}
	vrt.Cover("converted")
	// Known shape D13 was repaired; the assertion covers it: an accepted amount is exact,
	// in particular never a wrapped or clamped number
	vrt.Assert("C20.accepted-amount-is-exact", new(big.Int).SetUint64(got).Cmp(exact) == 0)
}
