package srv

import (
	"context"
	"time"

	"github.com/Factom-Asset-Tokens/factom"
	"github.com/pegnet/pegnetd/fat/fat2"
	"github.com/pegnet/pegnetd/node"
	"github.com/pegnet/pegnetd/node/pegnet"
	"github.com/pegnet/pegnetd/zzverif/vrt"
)

// VerifAPIIsolation: C18 — (a) the API goroutine (rich-list handlers) and the sync goroutine
// share the rolling-average cache of *Pegnetd: no conflicting unsynchronised access may exist;
// (b) a handler answers from committed blocks only, whatever a half-applied block has pending.
func VerifAPIIsolation() {
	db := vrt.NewDB()
	p := &pegnet.Pegnet{DB: db}
	if err := p.VrtCreateTables(); err != nil {
		panic(err)
	}
	d := new(node.Pegnetd)
	d.Pegnet = p
	d.Sync = &pegnet.BlockSync{Synced: 10}
	node.AveragePeriod = 3
	node.AverageRequired = 2
	// pXBT is quoted in every block, or (sparse) only in the last one: then it has a spot rate but
	// no rolling average (fewer samples than required)
	sparse := vrt.Choose("xbtQuotedOnlyInTheLastBlock", 2) == 1
	for h := 8; h <= 10; h++ {
		for _, t := range []fat2.PTicker{fat2.PTickerUSD, fat2.PTickerXBT} {
			if sparse && t == fat2.PTickerXBT && h < 10 {
				continue
			}
			if _, err := db.Exec("INSERT INTO pn_rate (height, token, value) VALUES ($1, $2, $3)", h, t.String(), vrt.URange("rate", 1, 1<<40)); err != nil {
				panic(err)
			}
		}
	}
	var A factom.FAAddress
	for i := range A {
		A[i] = 0xA1
	}
	bal := vrt.URange("bal", 0, 1<<40)
	if _, err := db.Exec(`INSERT INTO pn_addresses ("address", "pusd_balance") VALUES (?, ?)`, A[:], bal); err != nil {
		panic(err)
	}
	s := &APIServer{Node: d}
	ctx := context.Background()

	// ---- (b) committed reads only
	before := s.getGlobalRichList(ctx, nil)
	tx, err := db.Begin()
	if err != nil {
		panic(err)
	}
	if _, err := p.AddToBalance(tx, &A, fat2.PTickerUSD, vrt.URange("pending", 1, 1<<40)); err != nil {
		panic(err)
	}
	during := s.getGlobalRichList(ctx, nil)
	if err := tx.Rollback(); err != nil {
		panic(err)
	}
	rb, ok1 := before.([]ResultGlobalRichList)
	rd, ok2 := during.([]ResultGlobalRichList)
	vrt.Assert("C18.handler-returns-a-list", ok1 && ok2)
	if ok1 && ok2 {
		vrt.Assert("C18.response-ignores-the-half-applied-block", len(rb) == len(rd))
		for i := 0; i < len(rb) && i < len(rd); i++ {
			vrt.Assert("C18.response-ignores-the-half-applied-block", rb[i].Equiv == rd[i].Equiv && rb[i].Address == rd[i].Address)
		}
	}
	vrt.Assert("C18.handlers-never-write", vrt.Monitor("db-write-during-tx") == 0)

	// ---- (a) the shared cache
	d2 := new(node.Pegnetd) // fresh cache, same database
	d2.Pegnet = p
	d2.Sync = &pegnet.BlockSync{Synced: 10}
	s2 := &APIServer{Node: d2}
	// the sync side asks for the same height as the handler, or (block boundary) another one
	syncHeight := uint32(9 + vrt.Choose("syncHeight", 3))
	vrt.Shared(d2, "Pegnetd")
	vrt.Parallel(
		func() { _ = s2.getGlobalRichList(ctx, nil) },             // API goroutine
		func() { _ = d2.GetPegNetRateAverages(ctx, syncHeight) }, // sync goroutine: the holding pass of a block
	)
	// what one caller was handed must not be rewritten by a later call for another height
	d3 := new(node.Pegnetd)
	d3.Pegnet = p
	d3.Sync = &pegnet.BlockSync{Synced: 10}
	first := d3.GetPegNetRateAverages(ctx, 10).(map[fat2.PTicker]uint64)
	u0, x0 := first[fat2.PTickerUSD], first[fat2.PTickerXBT]
	_ = d3.GetPegNetRateAverages(ctx, syncHeight)
	vrt.Assert("C18.returned-averages-are-not-rewritten-by-later-calls", first[fat2.PTickerUSD] == u0 && first[fat2.PTickerXBT] == x0)
	// ---- (a') a request whose client has gone away (cancelled context) may fail, but what the
	// sync side computes afterwards is what it computes without that request
	d4 := new(node.Pegnetd)
	d4.Pegnet = p
	d4.Sync = &pegnet.BlockSync{Synced: 10}
	s4 := &APIServer{Node: d4}
	gone, cancel := context.WithCancel(ctx)
	cancel()
	func() {
		defer func() { recover() }() // the JSON-RPC layer swallows handler panics
		_ = s4.getGlobalRichList(gone, nil)
	}()
	afterReq := d4.GetPegNetRateAverages(ctx, 10).(map[fat2.PTicker]uint64)
	d5 := new(node.Pegnetd)
	d5.Pegnet = p
	d5.Sync = &pegnet.BlockSync{Synced: 10}
	clean := d5.GetPegNetRateAverages(ctx, 10).(map[fat2.PTicker]uint64)
	vrt.Assert("C18.abandoned-request-does-not-change-what-sync-computes",
		afterReq[fat2.PTickerUSD] == clean[fat2.PTickerUSD] && afterReq[fat2.PTickerXBT] == clean[fat2.PTickerXBT])

	// ---- (a'') answering rich-list requests leaves the averages sync will use as they are
	d8 := new(node.Pegnetd)
	d8.Pegnet = p
	d8.Sync = &pegnet.BlockSync{Synced: 10}
	s8 := &APIServer{Node: d8}
	_ = s8.getGlobalRichList(ctx, nil)
	_ = s8.getRichList(ctx, vrt.Blob(ParamsGetRichList{Asset: "pXBT", Count: 5}))
	served := d8.GetPegNetRateAverages(ctx, 10).(map[fat2.PTicker]uint64)
	d9 := new(node.Pegnetd)
	d9.Pegnet = p
	d9.Sync = &pegnet.BlockSync{Synced: 10}
	quiet := d9.GetPegNetRateAverages(ctx, 10).(map[fat2.PTicker]uint64)
	vrt.Assert("C18.served-requests-do-not-change-what-sync-computes",
		served[fat2.PTickerUSD] == quiet[fat2.PTickerUSD] && served[fat2.PTickerXBT] == quiet[fat2.PTickerXBT])
	// read as C01: a daemon that answered API requests and one that did not replay the same chain to
	// the same ledger - what the sync loop computes from must not depend on the requests served
	vrt.Assert("C01.what-sync-computes-does-not-depend-on-api-requests-served",
		served[fat2.PTickerUSD] == quiet[fat2.PTickerUSD] && served[fat2.PTickerXBT] == quiet[fat2.PTickerXBT])

	// ---- (c) whatever the read API was asked, it leaves nothing behind that stops the sync loop:
	// after any request - found or not found - the next block must still commit (in SQLite's
	// default journal mode a read transaction or cursor left open keeps a SHARED lock, and COMMIT fails)
	var H factom.Bytes32
	for i := range H {
		H[i] = 0x77
	}
	txh, err := db.Begin()
	if err != nil {
		panic(err)
	}
	var burn factom.FactoidTransaction
	burn.TransactionID = &H
	burn.TimestampSalt = time.Unix(1600000100, 0)
	var bin factom.FactoidTransactionIO
	bin.Amount = 5
	copy(bin.Address[:], A[:])
	burn.FCTInputs = []factom.FactoidTransactionIO{bin}
	var FB factom.Bytes32
	FB[0] = 0x99
	if err := p.InsertFCTBurn(txh, &FB, burn, 10); err != nil {
		panic(err)
	}
	if err := txh.Commit(); err != nil {
		panic(err)
	}
	var none factom.Bytes32
	var opts pegnet.HistoryQueryOptions
	switch vrt.Choose("request", 9) {
	case 0:
		_, _, _ = p.SelectTransactionHistoryActionsByHeight(10, opts) // finds the burn
	case 1:
		_, _, _ = p.SelectTransactionHistoryActionsByHeight(11, opts) // finds nothing
	case 2:
		_, _, _ = p.SelectTransactionHistoryActionsByHash(&none, opts)
	case 3:
		_, _, _ = p.SelectTransactionHistoryActionsByHash(&H, opts)
	case 4:
		_, _, _ = p.SelectTransactionHistoryActionsByAddress(&A, opts)
	case 5:
		var B factom.FAAddress
		_, _, _ = p.SelectTransactionHistoryActionsByAddress(&B, opts)
	case 6:
		_, _, _ = p.SelectTransactionHistoryStatus(&none)
	case 7:
		_, _ = p.SelectBalances(&A)
		_, _ = p.SelectIssuances()
	case 8:
		_ = s.getGlobalRichList(ctx, nil)
		_, _ = p.SelectRichList(fat2.PTickerUSD, 10)
	}
	txb, err := db.Begin()
	if err != nil {
		panic(err)
	}
	_, werr := p.AddToBalance(txb, &A, fat2.PTickerUSD, 1)
	cerr := txb.Commit()
	vrt.Assert("C18.next-block-commits-after-any-api-request", werr == nil && cerr == nil)
	// ---- (d) the sync loop bumps its in-memory height before the block is committed: a rich-list
	// request that lands in that window sees Synced = 11 while block 11's rates are still pending.
	// Whatever it does with that, what sync computes for block 11 afterwards is what it computes alone.
	d6 := new(node.Pegnetd)
	d6.Pegnet = p
	d6.Sync = &pegnet.BlockSync{Synced: 11}
	s6 := &APIServer{Node: d6}
	tx11, err := db.Begin()
	if err != nil {
		panic(err)
	}
	for _, t := range []fat2.PTicker{fat2.PTickerUSD, fat2.PTickerXBT} {
		if _, err := tx11.Exec("INSERT INTO pn_rate (height, token, value) VALUES ($1, $2, $3)", 11, t.String(), vrt.URange("rate11", 1, 1<<40)); err != nil {
			panic(err)
		}
	}
	_ = s6.getRichList(ctx, vrt.Blob(ParamsGetRichList{Asset: "pUSD", Count: 5}))
	if err := tx11.Commit(); err != nil {
		panic(err)
	}
	withReq := d6.GetPegNetRateAverages(ctx, 11).(map[fat2.PTicker]uint64)
	d7 := new(node.Pegnetd)
	d7.Pegnet = p
	d7.Sync = &pegnet.BlockSync{Synced: 11}
	alone := d7.GetPegNetRateAverages(ctx, 11).(map[fat2.PTicker]uint64)
	vrt.Assert("C18.request-between-height-bump-and-commit-does-not-change-what-sync-computes",
		withReq[fat2.PTickerUSD] == alone[fat2.PTickerUSD] && withReq[fat2.PTickerXBT] == alone[fat2.PTickerXBT])
	vrt.Cover("ran")
	vrt.Assert("C18.no-data-race-between-api-and-sync", vrt.Races() == 0)
}
