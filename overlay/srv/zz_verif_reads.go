package srv

import (
	"context"
	"time"

	"github.com/Factom-Asset-Tokens/factom"
	"github.com/pegnet/pegnetd/fat/fat2"
	"github.com/pegnet/pegnetd/node"
	"github.com/pegnet/pegnetd/node/pegnet"
	"github.com/pegnet/pegnetd/zzverif/vrt"
)

// VerifAPIReads: the read handlers of the API, one request each, against a ledger with symbolic
// content.  C17: what a handler reports is what the tables hold (status, height, balances, rates,
// bank row, issuance).  C18: the answer is the same while a block is half applied (pending writes
// of an open block transaction touching the very rows the handler reads), and no handler writes.
func VerifAPIReads() {
	db := vrt.NewDB()
	p := &pegnet.Pegnet{DB: db}
	if err := p.VrtCreateTables(); err != nil {
		panic(err)
	}
	d := new(node.Pegnetd)
	d.Pegnet = p
	d.Sync = &pegnet.BlockSync{Synced: 240000}
	s := &APIServer{Node: d}
	ctx := context.Background()
	vrt.Stub("(*github.com/Factom-Asset-Tokens/factom.Heights).Get", func(h *factom.Heights, c context.Context, cl *factom.Client) error {
		h.DirectoryBlock = 240005
		return nil
	})
	var A, B factom.FAAddress
	var H, FB factom.Bytes32
	for i := range A {
		A[i], B[i], H[i] = 0xA1, 0xB2, 0x77
	}
	FB[0] = 0x99
	usd := vrt.URange("usd", 1, 1<<40)
	xbt := vrt.URange("xbt", 0, 1<<40)
	rUSD, rXBT := vrt.URange("rateUSD", 1, 1<<40), vrt.URange("rateXBT", 1, 1<<40)
	bankUsed, bankReq := vrt.URange("bankUsed", 0, 1<<40), vrt.URange("bankRequested", 0, 1<<40)
	status := int64(vrt.Choose("status", 3)) - 1 // -1 rejected, 0 pending, 1 => executed at its height
	tx0, err := db.Begin()
	if err != nil {
		panic(err)
	}
	if _, err := p.AddToBalance(tx0, &A, fat2.PTickerUSD, usd); err != nil {
		panic(err)
	}
	if _, err := p.AddToBalance(tx0, &A, fat2.PTickerXBT, xbt); err != nil {
		panic(err)
	}
	for _, r := range []struct {
		t string
		v uint64
	}{{"pUSD", rUSD}, {"pXBT", rXBT}} {
		if _, err := tx0.Exec("INSERT INTO pn_rate (height, token, value) VALUES ($1, $2, $3)", 240000, r.t, r.v); err != nil {
			panic(err)
		}
	}
	if err := p.InsertBankAmount(tx0, 240000, int64(pegnet.BankBaseAmount)); err != nil {
		panic(err)
	}
	if err := p.UpdateBankEntry(tx0, 240000, int64(bankUsed), int64(bankReq)); err != nil {
		panic(err)
	}
	// a history record of one transfer batch with the chosen status
	b := new(fat2.TransactionBatch)
	b.Version = 1
	b.Entry.Hash = &H
	b.Entry.Timestamp = time.Unix(1600000000, 0)
	var t fat2.Transaction
	t.Input = fat2.TypedAddressAmountTuple{Address: A, Amount: 5, Type: fat2.PTickerUSD}
	t.Transfers = []fat2.AddressAmountTuple{{Address: B, Amount: 5}}
	b.Transactions = []fat2.Transaction{t}
	if err := p.InsertTransactionHistoryTxBatch(tx0, 0, b, 239999); err != nil {
		panic(err)
	}
	want := status
	if status == 1 {
		want = 240000
	}
	if status != 0 {
		if err := p.SetTransactionHistoryExecuted(tx0, b, want); err != nil {
			panic(err)
		}
	}
	d.Sync.Synced = 240000
	if err := p.InsertSynced(tx0, d.Sync); err != nil {
		panic(err)
	}
	if err := tx0.Commit(); err != nil {
		panic(err)
	}

	which := vrt.Choose("handler", 6)
	// the handlers that take an optional height are asked for an explicit height or for the default
	// ("the synced height"), which must be the COMMITTED one
	askHeight := 240000
	if (which == 2 || which == 3) && vrt.Choose("defaultHeight", 2) == 1 {
		askHeight = 0
		vrt.Cover("default-height")
	}
	ask := func() interface{} {
		switch which {
		case 0:
			return s.getPegnetBalances(ctx, vrt.Blob(ParamsGetPegnetBalances{Address: A.String()}))
		case 1:
			return s.getTransactionStatus(ctx, vrt.Blob(ParamsGetPegnetTransactionStatus{Hash: &H}))
		case 2:
			return s.getPegnetRates(ctx, vrt.Blob(ParamsGetPegnetRates{Height: uint32(askHeight)}))
		case 3:
			return s.getBank(ctx, vrt.Blob(ParamsGetBank{Height: int32(askHeight)}))
		case 4:
			return s.getPegnetIssuance(ctx, nil)
		default:
			return s.getRichList(ctx, vrt.Blob(ParamsGetRichList{Asset: "pUSD", Count: 5}))
		}
	}
	// C17: the answer is what the tables hold
	check := func(id string, r interface{}) {
		switch which {
		case 0:
			m, ok := r.(ResultPegnetTickerMap)
			vrt.Assert(id, ok && m[fat2.PTickerUSD] == usd && m[fat2.PTickerXBT] == xbt && m[fat2.PTickerPEG] == 0)
		case 1:
			st, ok := r.(ResultGetTransactionStatus)
			vrt.Assert(id, ok && st.Height == 239999 && int64(st.Executed) == want)
		case 2:
			m, ok := r.(ResultPegnetTickerMap)
			vrt.Assert(id, ok && m[fat2.PTickerUSD] == rUSD && m[fat2.PTickerXBT] == rXBT)
		case 3:
			be, ok := r.(pegnet.BankEntry)
			vrt.Assert(id, ok && be.Height == 240000 && uint64(be.BankAmount) == uint64(pegnet.BankBaseAmount) && uint64(be.BankUsed) == bankUsed && uint64(be.PEGRequested) == bankReq)
		case 4:
			is, ok := r.(ResultGetIssuance)
			vrt.Assert(id, ok && is.Issuance[fat2.PTickerUSD] == usd && is.Issuance[fat2.PTickerXBT] == xbt)
		default:
			l, ok := r.([]ResultGetRichList)
			vrt.Assert(id, ok && len(l) == 1 && l[0].Address == A.String() && l[0].Amount == usd)
		}
	}
	before := ask()
	check("C17.api-reports-what-the-ledger-holds", before)
	// ---- a block is half applied: pending writes on the rows the handlers read
	tx, err := db.Begin()
	if err != nil {
		panic(err)
	}
	// (the first write of the block after an API request was served: whatever the request left behind
	// - a lock, a cursor, a connection returned to the pool in another mode - shows here)
	_, werr := p.AddToBalance(tx, &A, fat2.PTickerUSD, vrt.URange("pendingCredit", 1, 1<<40))
	vrt.Assert("C18.block-can-write-after-an-api-request-was-served", werr == nil)
	if werr != nil {
		return
	}
	if _, err := p.AddToBalance(tx, &B, fat2.PTickerUSD, 7); err != nil {
		panic(err)
	}
	if err := p.SetTransactionHistoryExecuted(tx, b, 240001); err != nil {
		panic(err)
	}
	if err := p.UpdateBankEntry(tx, 240000, int64(bankUsed+1), int64(bankReq+1)); err != nil {
		panic(err)
	}
	// the sync loop has already bumped its in-memory height for the block it is applying
	// (DBlockSync: Synced++ before InsertSynced and COMMIT; Synced-- if the block fails)
	d.Sync.Synced = 240001
	during := ask()
	check("C18.response-reflects-committed-blocks-only", during)
	if err := tx.Rollback(); err != nil {
		panic(err)
	}
	d.Sync.Synced = 240000
	vrt.Assert("C18.handlers-never-write", vrt.Monitor("db-write-during-tx") == 0)
	vrt.Cover("asked")
}
