#!/usr/bin/env python3
"""Regenerates MANIFEST.json from harnesses.py (PROPS) and manifest_meta.py."""
import json
from harnesses import PROPS
from manifest_meta import META, NOT_APPLICABLE

ALL = ["C%02d" % i for i in range(1, 21)]
checks = []
for pid in ALL:
    if pid not in PROPS or pid in NOT_APPLICABLE:
        continue
    m = META[pid]
    checks.append({
        "property_id": pid,
        "quick_cmd": "./check %s quick" % pid,
        "thorough_cmd": "./check %s thorough" % pid,
        "evidence_file": "/verif/evidence/%s.json" % pid,
        "replay_cmd_template": "./check --replay {path}",
        "engine": "gosym",
        "level_claimed": {"category": "model_checking", "text": m["text"], "design_ref": m.get("design_ref", "DESIGN.md §7")},
        "level_note": m["note"],
        "technique": m.get("technique", "bounded symbolic execution of the real Go code (go/ssa -> SMT, z3 5.1), counterexamples replayed on the real build"),
    })
na = [{"property_id": p, "reason": NOT_APPLICABLE[p]} for p in ALL if p in NOT_APPLICABLE or p not in PROPS]
for e in na:
    pass
manifest = {
    "version": 1,
    "setup_cmd": "cd /verif/engine && GOFLAGS=-mod=mod GOPROXY=off GOSUMDB=off GOTOOLCHAIN=local go build -o ../bin/gosym ./cmd/gosym",
    "hooks": {"guard": "verif", "enable": "no source hooks: harnesses are injected with go build/go packages overlays (-overlay), nothing is written under /repo",
              "baseline_off_cmd": "cd /repo && go test -vet=off -count=1 ./...", "source_commits": [], "add_only": True},
    "engines": [{"name": "gosym", "path": "/verif/engine", "serves_properties": [c["property_id"] for c in checks],
                 "kind_free_text": "own go/ssa symbolic interpreter: integers/balances/rates as SMT Int terms with explicit wrap, math/big as Int, database/sql intercepted by a relational store model interpreting the repo's SQL; stateless DFS over decision prefixes; z3 5.1 decides, counterexamples replayed natively with go test -overlay"}],
    "checks": checks,
    "not_applicable": na,
    "notes": "All checks: exit 0 held / 1 VIOLATION / 2 INCONCLUSIVE (engine limit; never reported as success). Known findings: known_findings.json.",
}
json.dump(manifest, open("MANIFEST.json", "w"), indent=1)
print("wrote MANIFEST.json with", len(checks), "checks,", len(na), "not applicable")
