# Property -> harness table used by ./check. One entry per property.
CONV = "node/conversions"

PEG = "node/pegnet"

PROPS = {
    # internal: engine / SQL model conformance smoke (not a property; not in MANIFEST)
    "X00": {
        "harnesses": [
            {"func": "VerifSQLSmoke", "pkg": PEG, "pkgname": "pegnet", "load": ["./node/pegnet"],
             "must_cover": ["sufficient", "insufficient"]},
        ],
    },
    "C07": {
        "harnesses": [
            {"func": "VerifConvert", "pkg": CONV, "pkgname": "conversions", "load": ["./node/conversions"],
             "must_cover": ["specified-error", "overflow-error", "converted-pip10", "converted-legacy"]},
        ],
        "bounds": {"quick": "Convert: amount int64, four rates uint64, height uint32 - full ranges, no loop"},
        "assumptions": ["math/big modelled as mathematical integers (Div/Quo by q,r form)"],
    },
}
