# Property -> harness table used by ./check. One entry per property.
CONV = "node/conversions"

PEG = "node/pegnet"

NODE = "node"


def batch(id, func, quick=None, thorough=None, thorough_only=False, must=("executed", "rejected")):
    h = {"id": id, "func": func, "pkg": NODE, "pkgname": "node", "load": ["./node"], "params": {}, "must_cover": list(must),
         "max_witness_replays": 4}
    if quick is not None:
        h["params"]["quick"] = quick
    if thorough is not None:
        h["params"]["thorough"] = thorough
    if thorough_only:
        h["thorough_only"] = True
        h["params"]["quick"] = thorough
    return h


BATCH_HARNESSES = [
    batch("batch-1tx", "VerifBatch", {"maxtx": 1, "maxout": 2, "tickerset": 1}, {"maxtx": 1, "maxout": 2, "tickerset": 2},
          must=("executed", "rejected", "dropped")),
    batch("batch-2tx", "VerifBatch", {"maxtx": 2, "exactntx": 1, "maxout": 1, "tickerset": 0, "outpool": 2, "fixedrows": 1},
          # thorough: 3 assets instead of 2; the 4-address output pool with free row presence did not finish within the wall limit
          {"maxtx": 2, "exactntx": 1, "maxout": 1, "tickerset": 1, "outpool": 2, "fixedrows": 1}),
    batch("batch-nocheck", "VerifBatchNoCheck", {"maxtx": 1, "maxout": 1, "tickerset": 1},
          {"maxtx": 2, "exactntx": 1, "maxout": 1, "tickerset": 0, "outpool": 2, "fixedrows": 1}),
    batch("batch-credit-between-spends", "VerifBatch", {"maxtx": 3, "exactntx": 1, "maxout": 1, "tickerset": 0, "outpool": 2, "fixedrows": 1, "shape": 3},
          {"maxtx": 3, "exactntx": 1, "maxout": 1, "tickerset": 1, "outpool": 2, "fixedrows": 1, "shape": 3}, must=("executed", "rejected")),
    batch("batch-3out", "VerifBatch", {"maxtx": 1, "maxout": 3, "tickerset": 0, "fixedrows": 1, "shape": 1},
          {"maxtx": 1, "maxout": 3, "tickerset": 0}, must=("executed", "rejected")),
    batch("batch-3tx", "VerifBatch", thorough={"maxtx": 3, "exactntx": 1, "maxout": 1, "tickerset": 0, "outpool": 2, "fixedrows": 1},
          thorough_only=True),
]
def txblock(id, quick, thorough):
    return {"id": id, "func": "VerifTxBlock", "pkg": NODE, "pkgname": "node", "load": ["./node"],
            "params": {"quick": quick, "thorough": thorough}, "must_cover": ["all-inert", "some-effective"], "max_witness_replays": 6}


TXBLOCK_HARNESSES = [
    txblock("txblock-1", {"maxentries": 1, "kindset": 0}, {"maxentries": 1, "kindset": 0}),
    txblock("txblock-2", {"maxentries": 2, "kindset": 2}, {"maxentries": 2, "kindset": 0}),
]
def holding(id, quick, thorough):
    return {"id": id, "func": "VerifHolding", "pkg": NODE, "pkgname": "node", "load": ["./node"],
            "params": {"quick": quick, "thorough": thorough}, "must_cover": ["applied", "some-executed"], "max_witness_replays": 6}


HOLDING_HARNESSES = [
    holding("holding-1", {"maxheld": 1}, {"maxheld": 1}),
    # thorough = quick for the 2-conversion variant: with symbolic rates the exploration does not finish within the
    # wall limit (tried: > 1 h); the symbolic-rate formula is covered by holding-1 in both tiers
    holding("holding-2", {"maxheld": 2, "fixrates": 1}, {"maxheld": 2, "fixrates": 1}),
]
RESTARTCHAIN = {"id": "restart-chain", "func": "VerifRestartChain", "pkg": NODE, "pkgname": "node", "load": ["./node"],
             "params": {"quick": {}, "thorough": {}}, "must_cover": ["restarted", "no-restart", "real-start-up-code"], "max_witness_replays": 4}
SYNCBLOCKFAULT = {"id": "syncblock-fault", "func": "VerifSyncBlockFault", "pkg": NODE, "pkgname": "node", "load": ["./node"],
             "params": {"quick": {}, "thorough": {}}, "must_cover": ["reference-applied", "fault-failed-block"], "max_witness_replays": 4}
APIREADS = {"id": "api-reads", "func": "VerifAPIReads", "pkg": "srv", "pkgname": "srv", "load": ["./srv"],
             "params": {"quick": {}, "thorough": {}}, "must_cover": ["asked"], "max_witness_replays": 6}
MULTIFETCH = {"id": "multifetch", "func": "VerifMultiFetch", "pkg": NODE, "pkgname": "node", "load": ["./node"],
             "params": {"quick": {"maxentries": 3}, "thorough": {"maxentries": 4}},
             "must_cover": ["all-fetched", "entry-request-failed", "eblock-request-failed"], "max_witness_replays": 4,
             "replay_mode": "order", "native_repeat": 40}
MULTIFETCHFULL = {"id": "multifetch-full", "func": "VerifMultiFetch", "pkg": NODE, "pkgname": "node", "load": ["./node"],
             "params": {"quick": {"many": 48, "hang_seconds": 20}, "thorough": {"many": 150, "hang_seconds": 20}},
             "must_cover": ["all-fetched"], "max_witness_replays": 1}
HOLDING_BOUNDS = "holding pass (SyncBank + ApplyTransactionBatchesInHolding + recordPegnetRequests) at one executing height per era (bank-limited per arrival height / V4 pooled bank / 2.0 / PIP-10), 1-2 blocks without rates before it, 1 held conversion (pUSD->pXBT or pUSD->PEG; amounts, balances, rates of both blocks symbolic) or 2 held conversions at rates 1:1, arrival heights inside and just outside the window"
HOLDING_ASSUMPTIONS = [
    "held batches are single conversions put into holding by the real ApplyTransactionBlock in earlier committed blocks; multi-transaction batches in the bank era: a batch made of PEG requests only is the peg-batch harness (2-3 requests, rates 1:1); batches mixing a PEG request with other transactions (known legacy findings D8/D15, DESIGN §8) are outside",
    "averaging period reduced to 3 (package variable) so that the averages are those of the last rated block; rates of the executing block are the table rows InsertRates would have written",
]
SYNCBLOCK = {"id": "syncblock-glue", "func": "VerifSyncBlock", "pkg": NODE, "pkgname": "node", "load": ["./node"],
             "params": {"quick": {}, "thorough": {}}, "must_cover": ["ran", "held-conversion-considered", "held-conversion-waits"], "max_witness_replays": 8}
GRADEGLUE = {"id": "grade-glue", "func": "VerifGradeGlue", "pkg": NODE, "pkgname": "node", "load": ["./node"],
             "params": {"quick": {}, "thorough": {}}, "must_cover": ["mining", "staking"], "max_witness_replays": 6}
TXBLOCK_ASSUMPTIONS = [
    "ideal-signature model of fat103.Validate: a signature verifies only for the key holder's own (salt, chain id, content); ext-id count, +-12 h salt window against the block time and the RCD-type mask are modelled exactly as the library implements them (native replays use real ed25519/secp256k1 signatures)",
    "entry content = opaque carrier of a decoded batch or unparsable content (JSON parser itself not encoded: C20 not-applicable sub-claim)",
    "prior states (executed / pending / rejected copy of an entry) are produced by running the real ApplyTransactionBlock on an earlier block",
    "single-transaction batches (multi-transaction semantics are decided in C03's harness)",
]
BATCH_ASSUMPTIONS = [
    "pre-state: arbitrary rows for the input address, one recipient, one bystander, the burn and zero addresses; every balance and per-asset total < 2^62 (INV I2; excludes SQLite REAL promotion)",
    "batch satisfies the repo's own ValidData(); one input address; from 2.0 on no PEG destination (ValidatePegTx, as the caller guarantees)",
    "caller context: transfer-only batches with nil rates, batches with a conversion with a non-empty rate map; a missing map entry and a recorded 0 are the same value",
    "conversion outputs at the given rates keep per-asset totals < 2^62",
    "SQL semantics per the store model (validated by native replays on real SQLite each run); fat103 signature validation not involved in this unit",
]

# GetPegNetRateAverages against an absolute reference (window mean; unavailable unless enough NON-ZERO samples):
# period 4 so that "required" is 2 and a recorded 0 next to one priced block separates samples held from samples priced
# one held batch with 2 (q) / 2..3 (t) PEG requests of different amounts settled in the bank-limited era
PEGBATCH = {"id": "peg-batch", "func": "VerifPegBatch", "pkg": NODE, "pkgname": "node", "load": ["./node"],
            "params": {"quick": {"maxreq": 2}, "thorough": {"maxreq": 3}},
            "must_cover": ["bank-exhausted", "bank-sufficient", "insufficient"], "max_witness_replays": 4}
AVGABS = {"id": "averages-absolute", "func": "VerifAverages", "pkg": NODE, "pkgname": "node", "load": ["./node"],
          "params": {"quick": {"period": 4, "heights": 6}, "thorough": {"period": 4, "heights": 9}},
          "must_cover": ["three-or-more-rated", "few-rated"], "max_witness_replays": 3}

PROPS = {
    # internal: engine / SQL model conformance smoke (not a property; not in MANIFEST)
    "X00": {
        "harnesses": [
            {"func": "VerifSQLSmoke", "pkg": PEG, "pkgname": "pegnet", "load": ["./node/pegnet"],
             "must_cover": ["sufficient", "insufficient"]},
        ],
    },
    "C03": {
        "asserts": ["C03.", "uncaught-panic"],
        "harnesses": BATCH_HARNESSES + HOLDING_HARNESSES + [PEGBATCH],
        "bounds": {"quick": "applyTransactionBatch+recordBatch: 1 tx (<=2 outputs; and 3 outputs for pure transfers; output amounts are arbitrary uint64, validity is decided by the real ValidData, assets PEG/pUSD/pFCT, outputs to self/other/burn/zero address, all row-presence patterns) and exactly 2 tx (assets PEG/pUSD, outputs to self/other); height, amounts, balances (<2^62), rates, averages symbolic; CHECK constraints on and off",
                   "thorough": "1 tx over 5 assets; 1..2 tx over 3 assets with all output addresses and row patterns; exactly 3 tx over PEG/pUSD"},
        "assumptions": BATCH_ASSUMPTIONS,
    },
    "C04": {
        "asserts": ["C04.", "uncaught-panic"],
        "harnesses": BATCH_HARNESSES + HOLDING_HARNESSES + [PEGBATCH] + [
            {"id": "fct-burns", "func": "VerifBurns", "pkg": NODE, "pkgname": "node", "load": ["./node"],
             "params": {"quick": {}, "thorough": {}}, "must_cover": ["burn", "no-burn"], "max_witness_replays": 3},
            # the one-time supply events inside the real sync loop (burn-address zeroings, mint, burn of the mint)
            {"id": "syncloop-scheduled", "func": "VerifSyncLoop", "pkg": NODE, "pkgname": "node", "load": ["./node"],
             "params": {"quick": {"mode": 0}, "thorough": {"mode": 0}},
             "must_cover": ["completed", "old-burn-zeroing", "v202-activation", "v204-mint", "v204-burn-minted"], "max_witness_replays": 3},
            {"id": "scheduled", "func": "VerifScheduled", "pkg": NODE, "pkgname": "node", "load": ["./node"],
             "params": {"quick": {}, "thorough": {}}, "must_cover": ["nullify-mint"], "max_witness_replays": 2}],
        "bounds": {"quick": "as C03 (same harness, supply/recipient assertions); the one-time burn of the minted remainder", "thorough": "as C03"},
        "assumptions": BATCH_ASSUMPTIONS,
    },
    "C17": {
        "asserts": ["C17.", "uncaught-panic"],
        "harnesses": [
            {"id": "history-queries", "func": "VerifHistory", "pkg": PEG, "pkgname": "pegnet", "load": ["./node/pegnet"],
             "params": {"quick": {}, "thorough": {}}, "must_cover": ["some-actions", "no-actions"], "max_witness_replays": 8},
            APIREADS,
            # more recorded actions than one page holds (QueryLimit = 50): walked page after page, and read at every offset
            {"id": "history-pages-walk", "func": "VerifHistoryPages", "pkg": PEG, "pkgname": "pegnet", "load": ["./node/pegnet"],
             "params": {"quick": {"walk": 1, "rows": 53}, "thorough": {"walk": 1, "rows": 103}}, "must_cover": ["walked"], "max_witness_replays": 2},
            {"id": "history-pages-offsets", "func": "VerifHistoryPages", "pkg": PEG, "pkgname": "pegnet", "load": ["./node/pegnet"],
             "params": {"quick": {"walk": 0, "rows": 53}, "thorough": {"walk": 0, "rows": 103}}, "must_cover": ["page", "offset-above-count"], "max_witness_replays": 3},
        ] + TXBLOCK_HARNESSES[:1] + HOLDING_HARNESSES[:1] + [PEGBATCH] + BATCH_HARNESSES[:1] + [BATCH_HARNESSES[3]] + [
            {"id": "rewards", "func": "VerifRewards", "pkg": NODE, "pkgname": "node", "load": ["./node"],
             "params": {"quick": {"maxwinners": 2}, "thorough": {"maxwinners": 3}}, "must_cover": ["winners"], "max_witness_replays": 2},
            {"id": "scheduled", "func": "VerifScheduled", "pkg": NODE, "pkgname": "node", "load": ["./node"],
             "params": {"quick": {}, "thorough": {}}, "must_cover": ["dev"], "max_witness_replays": 2},
            {"id": "snapshot", "func": "VerifSnapshot", "pkg": NODE, "pkgname": "node", "load": ["./node"],
             "params": {"quick": {"both": 2, "extras": 1, "assets": 1}, "thorough": {"both": 2, "extras": 1, "assets": 1}}, "must_cover": ["paid"], "max_witness_replays": 2},
        ],
        "wall": {"quick": 400, "thorough": 3000},
        "bounds": {"quick": "history of 2 batches (transfer with 2 outputs + conversion; transfer), an FCT burn and a coinbase written by the real insert functions at symbolic heights; one query by hash / txid / address / height with every combination of order, the four type filters and 4 asset filters (first page); paging over more rows than a page holds (see assumptions); plus the status/amount assertions of the block-application harnesses (transaction block, holding pass, batch, rewards, developer payout, staking payout)",
                   "thorough": "same"},
        "assumptions": ["paging: 53 (q) / 103 (t) one-transaction batches at one height read back by height and by address, ascending and descending - page after page the way a client follows nextoffset, and at every offset 0..N+1; filters are combined with paging only on the first page",
                        "json round trip of the outputs column stubbed; 'replaying history reproduces balances' is asserted per unit (recorded amounts == balance deltas of the unit), scheduled adjustments exempt as the property says"],
    },
    "C18": {
        "asserts": ["C18.", "uncaught-panic"],
        "harnesses": [
            {"id": "api-isolation", "func": "VerifAPIIsolation", "pkg": "srv", "pkgname": "srv", "load": ["./srv"],
             "params": {"quick": {}, "thorough": {}}, "must_cover": ["ran"], "race": True, "max_witness_replays": 3},
            APIREADS,
        ],
        "bounds": {"quick": "six read handlers (balances, transaction status, rates, bank, issuance, rich list), one request each on a ledger with symbolic content, answered before and while a block transaction holds pending writes on the rows they read; 9 kinds of history/balance read followed by a block commit; one abandoned (cancelled-context) request; two goroutine bodies: the real getGlobalRichList handler (API) and the GetPegNetRateAverages call of the holding pass (sync) on one *Pegnetd; lockset analysis over all accesses to its fields and the maps published through them, on every solver-feasible path (rates, balances symbolic); handler answered before and during an open block transaction with pending writes",
                   "thorough": "same"},
        "assumptions": ["Eraser-style lockset discipline: conflicting accesses from different goroutines need a common mutex (the code uses no other synchronisation); confirmed natively by the Go race detector running both bodies concurrently",
                        "two goroutines; getRichList shares the same call into the cache as getGlobalRichList; the word-sized read of Sync.Synced by the API (single writer) is not part of this harness; the HTTP stack is outside (DESIGN §9)",
                        "reads through *sql.DB see committed data only (SQLite isolation contract, validated natively on real SQLite)"],
    },
    "C19": {
        "asserts": ["C19.", "uncaught-panic"],
        "harnesses": [
            {"id": "hardfork", "func": "VerifHardfork", "pkg": PEG, "pkgname": "pegnet", "load": ["./node/pegnet"],
             "params": {"quick": {"smax": 5, "nforks": 2}, "thorough": {"smax": 7, "nforks": 2}},
             "must_cover": ["refused", "accepted"], "max_witness_replays": 8},
            # the same miniature histories with every start of a build going through NewPegnetd's own body
            # (with or without --no-hf for intermediate starts): what the start-up path does around the check
            {"id": "start-hardfork", "func": "VerifStartHardfork", "pkg": NODE, "pkgname": "node", "load": ["./node"],
             "params": {"quick": {"smax": 3, "nforks": 2}, "thorough": {"smax": 5, "nforks": 2}},
             "must_cover": ["refused", "accepted", "real-start-up-code"], "max_witness_replays": 4},
        ],
        "bounds": {"quick": "miniature chain: synced height S<=5, legacy prefix L<=S, one symbolic build version (0..4) per tracked height, 2 forks with symbolic height (1..5) and minimum version (-1..4), current version 0..4, optional intermediate restarts; states built through the real InsertSynced/commit",
                   "thorough": "S<=7"},
        "assumptions": ["fork heights lie above genesis (height 0 entry of the table is the always-valid base entry)",
                        "encoding/json round trip of the sync record modelled as identity (json.Marshal/Unmarshal stub)",
                        "the shipped fork table with mainnet heights is not instantiated (27k rows between forks); the code is uniform in the heights"],
    },
    "C01": {
        "asserts": ["C01.", "uncaught-panic"],
        "harnesses": [
            {"id": "supply-order", "func": "VerifSupply", "pkg": CONV, "pkgname": "conversions", "load": ["./node/conversions"],
             "params": {"quick": {"maxreq": 2, "order": 1}, "thorough": {"maxreq": 3, "order": 1}}, "must_cover": ["fits", "limited"],
             "replay_mode": "order", "native_repeat": 24},
            {"id": "staking-order", "func": "VerifSnapshot", "pkg": NODE, "pkgname": "node", "load": ["./node"],
             "params": {"quick": {"both": 2, "extras": 0, "assets": 1, "order": 1, "positive": 1, "permute_budget": 1, "fixrates": 1},
                        "thorough": {"both": 2, "extras": 0, "assets": 1, "order": 1, "positive": 1, "permute_budget": 1, "fixrates": 1}},
             "must_cover": ["paid", "capped", "uncapped"], "replay_mode": "order", "native_repeat": 24, "max_witness_replays": 3},
            {"id": "averages", "func": "VerifAverages", "pkg": NODE, "pkgname": "node", "load": ["./node"],
             "params": {"quick": {"period": 3, "heights": 6}, "thorough": {"period": 4, "heights": 9}},
             "must_cover": ["three-or-more-rated", "few-rated"], "max_witness_replays": 4},
            dict(GRADEGLUE, id="grade-glue-order", replay_mode="order", native_repeat=24, max_witness_replays=3),
            MULTIFETCH,
            # two independent replays of the scheduled-issuance scenarios (separate databases and node
            # objects, every time.Now() a fresh symbolic instant): no wall-clock value may reach the ledger
            {"id": "api-isolation", "func": "VerifAPIIsolation", "pkg": "srv", "pkgname": "srv", "load": ["./srv"],
             "params": {"quick": {}, "thorough": {}}, "must_cover": ["ran"], "max_witness_replays": 2},
            {"id": "syncloop-replays", "func": "VerifSyncLoop", "pkg": NODE, "pkgname": "node", "load": ["./node"],
             "params": {"quick": {"mode": 0}, "thorough": {"mode": 0}},
             "must_cover": ["completed", "dev-payout-at-2nd-block", "v204-mint"], "max_witness_replays": 3},
        ],
        "wall": {"quick": 400, "thorough": 3000},
        "bounds": {"quick": "(process history) the averaging cache of a daemon that lived through the chain vs one restarted before any rated block, as C09; order oracle = any permutation of one map iteration or one unstable sort per run (deviation budget 1); supply set with <=2 requests; SnapshotPayouts with 2 eligible stakers (1 asset, concrete rates, symbolic balances incl. exact ties)",
                   "thorough": "3 requests; stakers as quick (3 eligible stakers under the order oracle did not finish within the 50 min wall limit: reduced bound, stated; 3 stakers in canonical order are explored by C14's allocation variant)"},
        "assumptions": ["map iteration order, unstable-sort order and the wall clock (time.Now: a fresh symbolic instant per call) are the process-dependent inputs modelled; goroutine scheduling in multiFetch and tie handling inside the grader dependency are outside (DESIGN §9)",
                        "SQLite row order of SELECT without ORDER BY is a function of table content (row ids)"],
    },
    "C14": {
        "asserts": ["C14.", "uncaught-panic"],
        "harnesses": [
            {"id": "snapshot-join", "func": "VerifSnapshot", "pkg": NODE, "pkgname": "node", "load": ["./node"],
             "params": {"quick": {"both": 2, "extras": 1, "assets": 1, "edge": 1}, "thorough": {"both": 2, "extras": 1, "assets": 2, "edge": 1}},
             "must_cover": ["paid", "capped", "uncapped"], "max_witness_replays": 4},
            {"id": "snapshot-alloc", "func": "VerifSnapshot", "pkg": NODE, "pkgname": "node", "load": ["./node"],
             "params": {"quick": {"both": 3, "extras": 0, "assets": 1, "positive": 1, "fixrates": 1}, "thorough": {"both": 3, "extras": 0, "assets": 1}},
             "must_cover": ["paid", "capped", "uncapped"], "max_witness_replays": 4},
            {"id": "snapshot-valuation", "func": "VerifSnapshot", "pkg": NODE, "pkgname": "node", "load": ["./node"],
             "params": {"quick": {"both": 1, "extras": 0, "assets": 2}, "thorough": {"both": 1, "extras": 0, "assets": 3}},
             "must_cover": ["paid", "capped", "uncapped"], "max_witness_replays": 4},
            SYNCBLOCK,
            # the holder snapshots are persistent state: a (crash and) start of the daemon must leave them untouched
            {"id": "syncloop-crash", "func": "VerifSyncLoop", "pkg": NODE, "pkgname": "node", "load": ["./node"],
             "params": {"quick": {"mode": 0}, "thorough": {"mode": 0}},
             "must_cover": ["crashed", "v202-activation", "v204-mint"], "max_witness_replays": 2},
        ],
        "wall": {"quick": 400, "thorough": 3000},
        "bounds": {"quick": "SnapshotPayouts at the first snapshot heights >= 2.0 and >= 2.0.2: (a) 2 addresses in both snapshots + 1 only-new + 1 only-old, 1 non-PEG asset (pEUR or the last ticker of the enumeration, pNGN), symbolic balances in both snapshots, symbolic rates incl. 0; (b) 3 eligible stakers, concrete rates; (c) 1 staker holding 2 non-PEG assets (pEUR, pXBT) with independent symbolic rates incl. 0 and a symbolic pUSD rate",
                   "thorough": "(a) with 2 assets, (b) with symbolic rates"},
        "assumptions": ["USD value of one holding fits int64 and stakes fit uint64 (DESIGN §8 preconditions)", "balances < 2^62",
                        "trigger condition (height % 144, snapshot taken before balance changes) is SyncBlock glue: see C15/C02 glue harness"],
    },
    "C02": {
        "asserts": ["C02.", "uncaught-panic"],
        "harnesses": [
            {"id": "syncloop-crash", "func": "VerifSyncLoop", "pkg": NODE, "pkgname": "node", "load": ["./node"],
             "params": {"quick": {"mode": 0}, "thorough": {"mode": 0}},
             "must_cover": ["crashed", "completed", "dev-payout-at-2nd-block", "old-burn-zeroing", "v204-mint", "plain"], "max_witness_replays": 8},
            # the same loop under the fault oracle: a failed statement (e.g. of the sync marker) must not
            # leave the in-memory height ahead of the committed one, nor a gap in the applied heights
            {"id": "syncloop-fault", "func": "VerifSyncLoop", "pkg": NODE, "pkgname": "node", "load": ["./node"],
             "params": {"quick": {"mode": 1}, "thorough": {"mode": 1}},
             "must_cover": ["completed", "dev-payout-at-2nd-block", "old-burn-zeroing", "v204-mint"], "max_witness_replays": 4},
            dict(txblock("txblock-fault", {"maxentries": 1, "kindset": 1, "fault": 1}, {"maxentries": 1, "kindset": 0, "fault": 1}),
                 must_cover=["fault-failed-block"]),
            SYNCBLOCKFAULT,
        ] + BATCH_HARNESSES[:1],
        "wall": {"quick": 400, "thorough": 3000},
        "bounds": {"quick": "the real DBlockSync/SyncBlock loop over 2 blocks in 7 scenarios (developer payout block, both burn-address zeroings, 2.0.4 mint and its burn, a holder-snapshot height, plain heights) with Factom requests stubbed to blocks without tracked entries; crash oracle: the process is killed at EVERY DB-API call of the run (28..509 call sites per scenario), a new process resumes; fault oracle: every DB-API call fails once and the loop goes on (in-memory height == committed height, one version row per height, no gap); plus the handle-discipline monitor (no write outside the block transaction) in the batch harness",
                   "thorough": "same"},
        "assumptions": ["SQLite/database-sql contract: a transaction's writes become visible and durable atomically at COMMIT and not at all otherwise; a killed process = all connections dropped without commit (what SQLite does inside a statement or COMMIT, and torn OS writes, are outside)",
                        "blocks carry no transaction/OPR/SPR entries in this harness; block content is exercised by the unit harnesses, whose every DB write is checked to go through the block transaction (monitor C02.no-write-outside-block-tx)",
                        "restart replicates NewPegnetd's resume step (read the sync height from the database); NewPegnetd itself opens files and initialises the LXR hash and is not executed"],
    },
    "C10": {
        "asserts": ["C10.", "uncaught-panic"],
        "harnesses": [
            {"id": "syncloop-fault", "func": "VerifSyncLoop", "pkg": NODE, "pkgname": "node", "load": ["./node"],
             "params": {"quick": {"mode": 1}, "thorough": {"mode": 1}},
             "must_cover": ["completed", "dev-payout-at-2nd-block", "old-burn-zeroing", "v204-mint"], "max_witness_replays": 8},
            dict(txblock("txblock-fault", {"maxentries": 1, "kindset": 1, "fault": 1}, {"maxentries": 1, "kindset": 0, "fault": 1}),
                 must_cover=["fault-failed-block"]),
            dict(holding("holding-fault", {"maxheld": 1, "fault": 1, "fixrates": 1}, {"maxheld": 2, "fault": 1, "fixrates": 1, "edges": 0}),
                 must_cover=["fault-failed-block", "fault-ended-process"], workers={"thorough": 6}),
            MULTIFETCH,
            SYNCBLOCKFAULT,
        ],
        "wall": {"quick": 400, "thorough": 3000},
        "bounds": {"quick": "as C02's loop harness with the fault oracle: EVERY single DB-API call of the run fails once (error, no effect), or one of the first 8 upstream Factom requests fails once; the loop's own retry then completes the sync; plus the per-block units with content: ApplyTransactionBlock over 1 entry of every kind and the holding pass (SyncBank + ApplyTransactionBatchesInHolding) over 1 held conversion, each with EVERY single DB-API call of the unit failing once, compared against the same symbolic scenario run without a fault (a unit that reports success must have left exactly the fault-free store); the whole SyncBlock with content (OPR+SPR winner, rates, held conversion, transfer entry, holders) at 3 heights with every DB call failing once, retried by the same daemon; multiFetch with a failing request under the scheduling oracles", "thorough": "same, all entry kinds; holding pass over 1..2 held conversions at rates 1:1, one executing height inside each era (with the activation blocks as well the two-conversion variant ran into the path cap: reduced, stated; the activation blocks are in the one-conversion quick variant) (with symbolic rates the fault variant runs into the SQL-overflow guard, which the fault-free variant excludes by a precondition: reduced, stated)"},
        "assumptions": ["single transient fault per run; a failed COMMIT leaves nothing applied (go-sqlite3 rolls back)",
                        "multiFetch: goroutines and channels are sequentialised (deterministic scheduling, no preemption between channel operations) with two oracles: a worker may be overtaken while its request is in flight, and any of several waiting workers may deliver first; 1..3 entries, one failing request",
                        "log.Fatal (process exit after an unrecoverable rollback error) counts as 'not committed short'"],
    },
    "C09": {
        "asserts": ["C09.", "uncaught-panic"],
        "harnesses": [
            {"id": "averages", "func": "VerifAverages", "pkg": NODE, "pkgname": "node", "load": ["./node"],
             "params": {"quick": {"period": 3, "heights": 6, "gap": 1}, "thorough": {"period": 4, "heights": 9, "gap": 1}},
             "must_cover": ["three-or-more-rated", "few-rated", "asset-unquoted-for-a-stretch"], "max_witness_replays": 6},
            RESTARTCHAIN,
        ],
        "bounds": {"quick": "averaging period P=3 (package variable; the code is uniform in P, mainnet uses 288), chain of 6 heights (starting at height 1, or straddling the PIP-10 activation height) with every rated/unrated pattern, 2 assets (one appearing later, or quoted from the start and then left out of the rates of 1-2 consecutive heights), rates symbolic in [1, 2^40]; a restarted daemon is compared at EVERY rated block (so every set of restart heights); plus a 3-block chain with content (graded / ungraded with entries / graded) synced through the real SyncBlock by one daemon and by daemons restarted at any subset of the block boundaries",
                   "thorough": "P=4, 9 heights"},
        "assumptions": ["all other consensus inputs are read from the database (checked by reading SyncBlock: rates, holding, balances, bank, snapshots go through SQL); the rolling-average cache is the only in-memory state that influences results",
                        "rates are non-zero (a recorded 0 counts as missing in both paths alike)"],
    },
    "C20": {
        "asserts": ["C20.", "uncaught-panic"],
        "harnesses": [
            {"id": "amount", "func": "VerifAmount", "pkg": "cmd", "pkgname": "cmd", "load": ["./cmd"],
             "params": {"quick": {"maxint": 20, "maxfrac": 9}, "thorough": {"maxint": 22, "maxfrac": 10}},
             "must_cover": ["converted", "too-many-decimals"], "max_witness_replays": 6},
            {"id": "validate", "func": "VerifValidate", "pkg": "fat/fat2", "pkgname": "fat2", "load": ["./fat/fat2"],
             "params": {"quick": {"maxtx": 2, "maxout": 2}, "thorough": {"maxtx": 3, "maxout": 2}},
             "must_cover": ["accepted", "rejected"], "max_witness_replays": 6},
            TXBLOCK_HARNESSES[0],
            {"id": "tx-decode", "func": "VerifTxDecode", "pkg": "fat/fat2", "pkgname": "fat2", "load": ["./fat/fat2"],
             "params": {"quick": {"maxmembers": 4}, "thorough": {"maxmembers": 5}},
             "must_cover": ["canonical", "not-canonical"], "max_witness_replays": 8},
            {"id": "obj-decode", "func": "VerifObjDecode", "pkg": "fat/fat2", "pkgname": "fat2", "load": ["./fat/fat2"],
             "params": {"quick": {"maxmembers": 4}, "thorough": {"maxmembers": 5}},
             "must_cover": ["canonical", "not-canonical"], "max_witness_replays": 8},
            # round trip where the encoder is generic and the decoder hand-written: output tuple, any amount incl. 0
            {"id": "tuple-roundtrip", "func": "VerifTupleRoundTrip", "pkg": "fat/fat2", "pkgname": "fat2", "load": ["./fat/fat2"],
             "params": {"quick": {}, "thorough": {}}, "must_cover": ["output-tuple"], "max_witness_replays": 2},
            # "known tickers": canonical spelling of 6 asset names (incl. the first and the last of the enumeration) and 8 near misses each
            {"id": "ticker-decode", "func": "VerifTickerDecode", "pkg": "fat/fat2", "pkgname": "fat2", "load": ["./fat/fat2"],
             "params": {"quick": {}, "thorough": {}}, "must_cover": ["canonical-name", "near-miss"], "max_witness_replays": 4},
        ],
        "wall": {"quick": 400, "thorough": 3000},
        "bounds": {"quick": "decimal strings of the accepted shape with 0..20 integer digits and 0..9 fraction digits, every digit symbolic; decoded batches of 0..2 transactions with 0..2 transfers, all amounts uint64, tickers over the full range; the three length-checked decoders (Transaction, TransactionBatch, AddressAmountTuple) over JSON objects of 1..4 members drawn with repetition and in any order from their known keys and an unknown key (transfers value: a list, [] or null)",
                   "thorough": "22/10 digits; 3 transactions"},
        "assumptions": ["the three regular expressions of cmd/util.go are modelled by per-pattern predicates keyed on the pattern text; strconv.Atoi/ParseUint are interpreted from their real SSA",
                        "NOT APPLICABLE sub-claim: the accepted language of the JSON parser and the re-encoding round trip (encoding/json is reflection-driven over unbounded byte strings; DESIGN §9)"],
    },
    "C11": {
        "asserts": ["C11.", "uncaught-panic"],
        "harnesses": [
            {"id": "rewards", "func": "VerifRewards", "pkg": NODE, "pkgname": "node", "load": ["./node"],
             "params": {"quick": {"maxwinners": 3}, "thorough": {"maxwinners": 4}}, "must_cover": ["winners", "no-winners"], "max_witness_replays": 6},
            GRADEGLUE,
            {"id": "fct-burns", "func": "VerifBurns", "pkg": NODE, "pkgname": "node", "load": ["./node"],
             "params": {"quick": {}, "thorough": {}}, "must_cover": ["burn", "no-burn"], "max_witness_replays": 4},
            {"id": "staker-binding", "func": "VerifStakerBinding", "pkg": NODE, "pkgname": "node", "load": ["./node"],
             "params": {"quick": {}, "thorough": {}}, "must_cover": ["holder-signed", "names-a-holder-signed-by-another-key", "names-no-holder"], "max_witness_replays": 4},
             SYNCBLOCK,
             # the records of a block reach the graders through multiFetch: a failed entry request must fail the
             # block (it is retried), never hand the graders a block with a record missing
             MULTIFETCH,
        ],
        "bounds": {"quick": "ApplyGradedOPRBlock / ApplyGradedSPRBlock with an arbitrary verdict of 0..3 winners (payouts 0..2^58, payout address one of two addresses or unparsable), symbolic height and block time, prior balances symbolic; ApplyFactoidBlock over a factoid block of 1..2 transactions of arbitrary shape (0..2 FCT inputs, 0..1 FCT outputs, 0..2 EC outputs, to the burn address or elsewhere, EC amount 0 or not); one real signed staking record naming a holder / non-holder, signed by the holder's key / another key, through the real GradeS",
                   "thorough": "0..4 winners"},
        "assumptions": ["the grading decision (which records win, how much) is dependency code: an arbitrary verdict object implementing the dependency's interfaces stands in for it (DESIGN §9)",
                        "entry hashes of distinct winners are distinct; payouts are non-negative"],
    },
    "C15": {
        "asserts": ["C15.", "uncaught-panic"],
        "harnesses": [
            {"id": "scheduled", "func": "VerifScheduled", "pkg": NODE, "pkgname": "node", "load": ["./node"],
             "params": {"quick": {}, "thorough": {}}, "must_cover": ["dev", "mint", "nullify-mint"], "max_witness_replays": 6},
            SYNCBLOCK,
            {"id": "syncloop-fault", "func": "VerifSyncLoop", "pkg": NODE, "pkgname": "node", "load": ["./node"],
             "params": {"quick": {"mode": 1}, "thorough": {"mode": 1}},
             "must_cover": ["completed", "dev-payout-at-2nd-block", "v204-mint"], "max_witness_replays": 3},
        ],
        "bounds": {"quick": "DevelopersPayouts at the first payout heights >= dev activation and >= 2.0.2 (heights are formatted into mock txids, hence concrete) with symbolic prior balances; MintTokensForBalance and NullifyMintedTokens at their heights with symbolic prior/remaining balances", "thorough": "same"},
        "assumptions": ["address/percentage list and mint list are copied into the harness as specification; the code reads devs.go / mint.go",
                        "trigger conditions (height equality / modulo in SyncBlock and DBlockSync) and NullifyBurnAddress need the glue harness"],
    },
    "C12": {
        "asserts": ["C12.", "uncaught-panic"],
        "harnesses": [
            {"id": "rate-band", "func": "VerifRateBand", "pkg": NODE, "pkgname": "node", "load": ["./node"],
             "params": {"quick": {}, "thorough": {}}, "must_cover": ["both", "opr-only", "spr-only", "no-winners"], "max_witness_replays": 6},
            {"id": "insert-rates", "func": "VerifInsertRates", "pkg": NODE, "pkgname": "node", "load": ["./node"],
             "params": {"quick": {}, "thorough": {}}, "must_cover": ["inserted", "undefined-phase"], "max_witness_replays": 5},
            {"id": "rate-band-legacy-v0", "func": "VerifRateBandLegacy", "pkg": NODE, "pkgname": "node", "load": ["./node"],
             "params": {"quick": {"era": 0, "ratebits": 30}, "thorough": {"era": 0, "ratebits": 50}},
             "must_cover": ["inside", "outside", "edge-high", "edge-low"], "max_witness_replays": 8},
            {"id": "rate-band-legacy-10", "func": "VerifRateBandLegacy", "pkg": NODE, "pkgname": "node", "load": ["./node"],
             "params": {"quick": {"era": 1, "ratebits": 30}, "thorough": {"era": 1, "ratebits": 50}},
             "must_cover": ["inside", "outside", "edge-high", "edge-low"], "max_witness_replays": 8},
            SYNCBLOCK,
        ],
        "wall": {"quick": 400, "thorough": 3000},
        "bounds": {"quick": "GetAssetRates for heights >= 2.0.2 (25 % band), 3 assets, every OPR/SPR rate in [0, 2^50], either winner absent; closed-era bands (GetAssetRatesV0: 1 % / 0.1 % by staking-rate threshold; GetAssetRates in [dev-rewards, 2.0.2): 10 %) for one asset with OPR and SPR rate in [0, 2^30), IEEE rounding followed exactly; InsertRates for the three pricing phases (+ undefined), 3 assets, rates < 2^62, issuance from two symbolic holders",
                   "thorough": "same with closed-era rates in [0, 2^50)"},
        "assumptions": ["float64 modelled as exact dyadic rationals with IEEE round-to-nearest-even applied to every product/sum that is not representable (fork per binade); validated on every run by native replays of band-edge witnesses (opr exactly on the rounded threshold) on the hardware floats",
                        "closed-era band specification = the documented formula spr*(1-t) <= opr <= spr*(1+t) evaluated in float64 with the era's t (recorded consensus followed the float computation), cross-checked against the exact rational band up to one base unit at its edges",
                        "closed-era bands: one symbolic asset (plus one fixed in-band asset); rates >= 2^50 outside",
                        "a PEG price above 2^63 (equation phase) cannot be stored and is outside the claim"],
    },
    "C13": {
        "asserts": ["C13.", "uncaught-panic"],
        "harnesses": [
            {"id": "admit", "func": "VerifAdmit", "pkg": NODE, "pkgname": "node", "load": ["./node"],
             "params": {"quick": {"matrix": 0}, "thorough": {"matrix": 1, "positions": 1}},
             "maxpaths": {"thorough": 800000}, "workers": {"thorough": 13},
             "must_cover": ["must-reject", "must-drop", "must-execute"], "max_witness_replays": 9},
            {"id": "admit-cross", "func": "VerifAdmit", "pkg": NODE, "pkgname": "node", "load": ["./node"], "thorough_only": True,
             "params": {"quick": {"matrix": 0}, "thorough": {"matrix": 0}},
             "must_cover": ["must-reject", "must-drop", "must-execute"], "max_witness_replays": 3},
        ] + HOLDING_HARNESSES[:1] + [AVGABS],
        "wall": {"quick": 300, "thorough": 3000},
        "bounds": {"quick": "one conversion; (3 sources x all 62 destinations) + (all 62 sources x 3 destinations); height uint32 from the tx activation on, amount/balance < 2^62, rates/averages uint64 incl. 0",
                   "thorough": "full 62x62 asset matrix for a conversion that is the only transaction of its batch (the full matrix with a preceding transfer in the batch did not finish within the path cap: reduced, stated; the preceding-transfer position is explored on the quick tier's 3x62 + 62x3 cross, which the thorough tier runs as well)"},
        "assumptions": ["single-transaction batch through applyTransactionBatch (the PEG-destination rule from 2.0 on lives in the holding pass: ValidatePegTx, covered by the holding harness)",
                        "reject-code priority as documented in node/pegnet/errors.go", "converted output < 2^62 (INV I2)"],
    },
    "C16": {
        "asserts": ["C16.", "uncaught-panic"],
        "harnesses": [
            {"id": "supply-3", "func": "VerifSupply", "pkg": CONV, "pkgname": "conversions", "load": ["./node/conversions"],
             "params": {"quick": {"maxreq": 3, "order": 0}, "thorough": {"maxreq": 3, "order": 0}}, "must_cover": ["fits", "limited"]},
        ] + HOLDING_HARNESSES + [PEGBATCH],
        "bounds": {"quick": "ConversionSupplySet: 1..3 requests, bank and requests full uint64 (4 requests: the solver answers unknown on the dust bound after 20 min - reduced bound, stated)", "thorough": "1..4 requests"},
        "assumptions": ["math/big as mathematical integers; txids concrete and well-formed"],
    },
    "C05": {
        "asserts": ["C05.", "uncaught-panic"],
        "harnesses": TXBLOCK_HARNESSES + HOLDING_HARNESSES,
        "bounds": {"quick": "transaction-chain block with 1 entry of 12 kinds (valid transfer/conversion, replay of an executed/pending/rejected entry, unparsable, wrong signer, no signature, expired salt, corrupted signature, content altered after signing, signed for another chain, RCD-e key, extra ext-id) and 2-entry blocks (replay/transfer/conversion/unparsable/wrong signer, in any order); height, block time, salt offset, amounts, balances symbolic",
                   "thorough": "2-entry blocks over all kinds"},
        "assumptions": TXBLOCK_ASSUMPTIONS,
    },
    "C06": {
        "asserts": ["C06.", "uncaught-panic"],
        "harnesses": TXBLOCK_HARNESSES + HOLDING_HARNESSES + [SYNCBLOCKFAULT, SYNCBLOCK],
        "bounds": {"quick": "as C05 (same harness; duplicates within a block, across adjacent blocks, of executed/pending/rejected entries); plus a whole block with content (winners, rates, a held conversion, a transfer) retried after a failed DB call", "thorough": "as C05"},
        "assumptions": TXBLOCK_ASSUMPTIONS,
    },
    "C08": {
        "asserts": ["C08.", "uncaught-panic"],
        "harnesses": TXBLOCK_HARNESSES + [BATCH_HARNESSES[1], BATCH_HARNESSES[3]] + HOLDING_HARNESSES + [GRADEGLUE, SYNCBLOCK, MULTIFETCH, MULTIFETCHFULL] + [
            {"id": "snapshot-live", "func": "VerifSnapshot", "pkg": NODE, "pkgname": "node", "load": ["./node"],
             "params": {"quick": {"both": 2, "extras": 1, "assets": 1}, "thorough": {"both": 2, "extras": 1, "assets": 2}},
             "must_cover": ["paid"], "max_witness_replays": 2},
        ],
        "bounds": {"quick": "as C05 for transaction blocks; valid multi-transaction batches (2 transactions; transfer-conversion-transfer) as C03; multiFetch over a full entry block (48 entries; 150 thorough) must terminate; SnapshotPayouts as C14(a)", "thorough": "as C05/C03/C14"},
        "assumptions": TXBLOCK_ASSUMPTIONS + ["panics inside dependency parsers/graders are outside (DESIGN §9)"],
    },
    "C07": {
        "asserts": ["C07.", "C07a.", "uncaught-panic"],
        "harnesses": [
            {"func": "VerifConvert", "pkg": CONV, "pkgname": "conversions", "load": ["./node/conversions"],
             "must_cover": ["specified-error", "overflow-error", "converted-pip10", "converted-legacy"]},
        ] + HOLDING_HARNESSES + TXBLOCK_HARNESSES[:1] + [dict(SYNCBLOCK, params={"quick": {"pegsource": 1}, "thorough": {"pegsource": 1}}), BATCH_HARNESSES[1], RESTARTCHAIN, AVGABS],
        "bounds": {"quick": "Convert: amount int64, four rates uint64, height uint32 - full ranges, no loop"},
        "assumptions": ["math/big modelled as mathematical integers (Div/Quo by q,r form)"],
    },
}
