#!/bin/bash
# usage: seedeval.sh <seed dir (with patch.diff + *_test.go)> <worktree> <property ids...>
# 1) confirms the demonstration in the scratch worktree (fails with the patch, passes without)
# 2) applies the patch to /repo, runs the given checks, reverts /repo
export GOFLAGS=-mod=mod GOPROXY=off GOSUMDB=off GOTOOLCHAIN=local
SD=$1; WT=$2; shift 2
T=$(ls $SD/*_test.go | head -1)
PKG=$(grep -m1 '^package ' $T | awk '{print $2}')
case $PKG in
  node) DIR=node;; pegnet) DIR=node/pegnet;; conversions|conversions_test) DIR=node/conversions;; fat2|fat2_test) DIR=fat/fat2;; cmd|cmd_test) DIR=cmd;; srv|srv_test) DIR=srv;; *) echo "unknown package $PKG"; exit 3;;
esac
cd $WT && git checkout -q -- . && git clean -fdq
cp $T $DIR/zz_seed_demo_test.go
TESTS=$(grep -o '^func Test[A-Za-z0-9_]*' $T | sed 's/func //' | paste -sd'|')
echo "== demo WITHOUT patch"; go test -vet=off -count=1 -run "^($TESTS)\$" ./$DIR 2>&1 | grep -v "sqlite3\|warning\|\^\|Select standin\|return pNew\|declared here" | tail -3
git apply $SD/patch.diff || { echo "PATCH DOES NOT APPLY in worktree"; exit 3; }
echo "== demo WITH patch"; go test -vet=off -count=1 -run "^($TESTS)\$" ./$DIR 2>&1 | grep -v "sqlite3\|warning\|\^\|Select standin\|return pNew\|declared here" | tail -4
echo "== build+suite WITH patch"; go build ./... 2>&1 | grep -v "sqlite3\|warning\|\^\|Select standin\|return pNew\|declared here" | tail -2; rm $DIR/zz_seed_demo_test.go; go test -vet=off -count=1 ./... 2>&1 | grep "^ok\|FAIL" | tr '\n' ' '; echo
git checkout -q -- . && git clean -fdq
# checks run against the scratch worktree with the patch applied (VERIF_REPO), never against /repo itself
git apply $SD/patch.diff || { echo "PATCH DOES NOT APPLY in worktree"; exit 3; }
trap 'git -C '"$WT"' checkout -q -- . 2>/dev/null' EXIT
cd /verif
for P in "$@"; do echo "== check $P on the patched worktree $WT"; VERIF_REPO=$WT VERIF_OUT=/tmp/seedeval_out_$$ ./check $P quick > /tmp/seedeval_check_$$.out 2>&1; echo "exit=$?"; grep -E "^(VIOLATION|OK)" /tmp/seedeval_check_$$.out | cut -c1-300 | head -6; grep -E "^INCONCLUSIVE" /tmp/seedeval_check_$$.out | cut -c1-200 | sort | uniq -c | head -3; done
git -C $WT checkout -q -- .
rm -rf /tmp/seedeval_out_$$ /tmp/seedeval_check_$$.out
