package interp

import (
	"go/types"
	"fmt"
	"sort"

	"gosym/sym"

	"golang.org/x/tools/go/ssa"
)

// Lockset race analysis (Eraser style) along solver-feasible paths: the harness runs the
// bodies of two goroutines one after the other under different thread ids; every access to a
// location marked shared is recorded with the locks held; two accesses to one location from
// different threads, at least one a write, with no lock in common, are a data race.

type accessRec struct {
	tid   int
	write bool
	locks map[interface{}]bool
	where string
}

type smEntry struct {
	key IfaceVal
	val Value
}

type wgState struct {
	n       int
	waiters []*gthread
}

type raceState struct {
	tid    int
	held   map[int]map[interface{}]bool // per thread lockset
	acc    map[interface{}][]accessRec
	names  map[interface{}]string
	active bool
}

func (in *Interp) race() *raceState {
	if in.rs == nil {
		in.rs = &raceState{held: map[int]map[interface{}]bool{}, acc: map[interface{}][]accessRec{}, names: map[interface{}]string{}}
	}
	return in.rs
}

func (in *Interp) recordAccess(loc interface{}, write bool) {
	rs := in.rs
	if rs == nil || !rs.active {
		return
	}
	ls := map[interface{}]bool{}
	for l := range rs.held[rs.tid] {
		ls[l] = true
	}
	where := "?"
	if in.curFrame != nil {
		where = in.curFrame.fn.String()
	}
	// keep one record per (tid, write, lockset-size==0) to bound memory
	for _, r := range rs.acc[loc] {
		if r.tid == rs.tid && r.write == write && len(r.locks) == len(ls) {
			same := true
			for l := range ls {
				if !r.locks[l] {
					same = false
				}
			}
			if same {
				return
			}
		}
	}
	rs.acc[loc] = append(rs.acc[loc], accessRec{rs.tid, write, ls, where})
}

func (in *Interp) races() []string {
	var out []string
	rs := in.rs
	if rs == nil {
		return nil
	}
	for loc, recs := range rs.acc {
		for i := 0; i < len(recs); i++ {
			for j := i + 1; j < len(recs); j++ {
				a, b := recs[i], recs[j]
				if a.tid == b.tid || (!a.write && !b.write) {
					continue
				}
				common := false
				for l := range a.locks {
					if b.locks[l] {
						common = true
					}
				}
				if !common {
					out = append(out, fmt.Sprintf("%s: thread %d %s in %s / thread %d %s in %s", rs.names[loc], a.tid, rw(a.write), a.where, b.tid, rw(b.write), b.where))
				}
			}
		}
	}
	sort.Strings(out)
	return out
}

func rw(w bool) string {
	if w {
		return "write"
	}
	return "read"
}

func registerThreads(ex *Explorer) {
	I := ex.intercepts
	// vrt.Shared(ptr, name): the struct behind ptr is shared between goroutines
	I[vrtPath+".Shared"] = func(in *Interp, fn *ssa.Function, a []Value) Value {
		iv := a[0].(IfaceVal)
		c, ok := iv.V.(*Cell)
		if !ok || c == nil {
			in.fail("unsupported", "vrt.Shared needs a pointer to a struct")
		}
		in.ensureAgg(c)
		rs := in.race()
		for i, e := range c.Elems {
			e.Shared = true
			rs.names[e] = fmt.Sprintf("%s.field%d", str(a[1]), i)
		}
		rs.active = true
		return nil
	}
	// vrt.Parallel(f, g): natively two goroutines; here f as thread 1, then g as thread 2
	I[vrtPath+".Parallel"] = func(in *Interp, fn *ssa.Function, a []Value) Value {
		rs := in.race()
		rs.active = true
		rs.tid = 1
		in.callValue(a[0], nil)
		rs.tid = 2
		in.callValue(a[1], nil)
		rs.tid = 0
		return nil
	}
	I[vrtPath+".Races"] = func(in *Interp, fn *ssa.Function, a []Value) Value {
		r := in.races()
		for i, s := range r {
			if i < 6 {
				in.observed = append(in.observed, Observation{Tag: fmt.Sprintf("race%d", i), Term: s})
			}
		}
		return in.F.Int(int64(len(r)))
	}
	lock := func(in *Interp, fn *ssa.Function, a []Value) Value {
		rs := in.race()
		if rs.held[rs.tid] == nil {
			rs.held[rs.tid] = map[interface{}]bool{}
		}
		rs.held[rs.tid][a[0].(*Cell)] = true
		return nil
	}
	unlock := func(in *Interp, fn *ssa.Function, a []Value) Value {
		rs := in.race()
		delete(rs.held[rs.tid], a[0].(*Cell))
		return nil
	}
	// sync.Once: the function runs on the first Do of this Once value, never again in this process
	// (the flag lives with the Once cell: a new process / a fresh struct starts with it unset)
	I["(*sync.Once).Do"] = func(in *Interp, fn *ssa.Function, a []Value) Value {
		c := a[0].(*Cell)
		if c == nil {
			panic(goPanic{msg: "runtime error: invalid memory address or nil pointer dereference"})
		}
		if in.onceDone == nil {
			in.onceDone = map[*Cell]bool{}
		}
		if in.onceDone[c] {
			return nil
		}
		in.onceDone[c] = true
		in.callValue(a[1], nil)
		return nil
	}
	// sync.WaitGroup in the goroutine model: a counter per WaitGroup value; Wait parks the caller
	// until it reaches zero (nobody left to run = the runtime's deadlock report)
	wgOf := func(in *Interp, v Value) *wgState {
		c, _ := v.(*Cell)
		if c == nil {
			panic(goPanic{msg: "runtime error: invalid memory address or nil pointer dereference"})
		}
		if in.wgs == nil {
			in.wgs = map[*Cell]*wgState{}
		}
		st := in.wgs[c]
		if st == nil {
			st = &wgState{}
			in.wgs[c] = st
		}
		return st
	}
	wgAdd := func(in *Interp, st *wgState, d int) {
		st.n += d
		if st.n < 0 {
			panic(goPanic{msg: "sync: negative WaitGroup counter"})
		}
		if st.n == 0 {
			for _, t := range st.waiters {
				t.blocked = false
			}
			st.waiters = nil
		}
	}
	I["(*sync.WaitGroup).Add"] = func(in *Interp, fn *ssa.Function, a []Value) Value {
		wgAdd(in, wgOf(in, a[0]), int(in.Concretize(a[1].(*sym.Term))))
		return nil
	}
	I["(*sync.WaitGroup).Done"] = func(in *Interp, fn *ssa.Function, a []Value) Value {
		wgAdd(in, wgOf(in, a[0]), -1)
		return nil
	}
	I["(*sync.WaitGroup).Wait"] = func(in *Interp, fn *ssa.Function, a []Value) Value {
		st := wgOf(in, a[0])
		in.sched()
		for st.n > 0 {
			st.waiters = append(st.waiters, in.gs.cur)
			in.gBlock()
		}
		return nil
	}
	// sync.Map: an association list per Map value and path (keys compared as Go compares interface
	// values: same dynamic type and equal contents)
	smOf := func(in *Interp, v Value) *[]smEntry {
		c, _ := v.(*Cell)
		if c == nil {
			panic(goPanic{msg: "runtime error: invalid memory address or nil pointer dereference"})
		}
		if in.syncMaps == nil {
			in.syncMaps = map[*Cell]*[]smEntry{}
		}
		if in.syncMaps[c] == nil {
			in.syncMaps[c] = &[]smEntry{}
		}
		return in.syncMaps[c]
	}
	smFind := func(in *Interp, es *[]smEntry, key Value) int {
		k, _ := key.(IfaceVal)
		for i, e := range *es {
			if e.key.T == nil || k.T == nil {
				if e.key.T == nil && k.T == nil {
					return i
				}
				continue
			}
			if !types.Identical(e.key.T, k.T) {
				continue
			}
			if in.Branch(in.deepEqual(e.key.V, k.V, k.T)) {
				return i
			}
		}
		return -1
	}
	I["(*sync.Map).Load"] = func(in *Interp, fn *ssa.Function, a []Value) Value {
		es := smOf(in, a[0])
		if i := smFind(in, es, a[1]); i >= 0 {
			return TupleVal{(*es)[i].val, in.F.True}
		}
		return TupleVal{IfaceVal{}, in.F.False}
	}
	I["(*sync.Map).Store"] = func(in *Interp, fn *ssa.Function, a []Value) Value {
		es := smOf(in, a[0])
		if i := smFind(in, es, a[1]); i >= 0 {
			(*es)[i].val = a[2]
			return nil
		}
		*es = append(*es, smEntry{key: a[1].(IfaceVal), val: a[2]})
		return nil
	}
	I["(*sync.Map).LoadOrStore"] = func(in *Interp, fn *ssa.Function, a []Value) Value {
		es := smOf(in, a[0])
		if i := smFind(in, es, a[1]); i >= 0 {
			return TupleVal{(*es)[i].val, in.F.True}
		}
		*es = append(*es, smEntry{key: a[1].(IfaceVal), val: a[2]})
		return TupleVal{a[2], in.F.False}
	}
	I["(*sync.Map).Delete"] = func(in *Interp, fn *ssa.Function, a []Value) Value {
		es := smOf(in, a[0])
		if i := smFind(in, es, a[1]); i >= 0 {
			*es = append((*es)[:i:i], (*es)[i+1:]...)
		}
		return nil
	}
	I["(*sync.Mutex).Lock"] = lock
	I["(*sync.Mutex).Unlock"] = unlock
	I["(*sync.RWMutex).Lock"] = lock
	I["(*sync.RWMutex).Unlock"] = unlock
	I["(*sync.RWMutex).RLock"] = lock
	I["(*sync.RWMutex).RUnlock"] = unlock
	_ = sym.SInt
}
