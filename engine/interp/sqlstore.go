package interp

import (
	"fmt"
	"go/types"
	"math/big"
	"strings"

	"gosym/sym"
)

// ---- relational store model: concrete row structure, symbolic integer cells ----

// SQL values: *sym.Term (Int; Bool only as intermediate), string (TEXT),
// BlobVal, nil (NULL), FloatVal (REAL), SliceVal with Ext (opaque blob).
type BlobVal []byte

type sqlCol struct {
	name    string
	typ     string
	notNull bool
	def     *sqlExpr
	checks  []*sqlExpr
	rowidPK bool
}

type sqlRow struct {
	rowid int64
	vals  []Value
}

type sqlTable struct {
	name    string
	cols    []*sqlCol
	colIdx  map[string]int
	rows    []*sqlRow
	uniques [][]int
	rowidC  int // column aliasing rowid, or -1
	nextID  int64
	ddl     string
}

func (t *sqlTable) clone() *sqlTable {
	n := *t
	n.rows = make([]*sqlRow, len(t.rows))
	for i, r := range t.rows {
		nr := &sqlRow{rowid: r.rowid, vals: append([]Value{}, r.vals...)}
		n.rows[i] = nr
	}
	return &n
}

type storeLayer struct {
	tables map[string]*sqlTable
	order  []string
}

func (l *storeLayer) clone() *storeLayer {
	n := &storeLayer{tables: map[string]*sqlTable{}, order: append([]string{}, l.order...)}
	for k, t := range l.tables {
		n.tables[k] = t.clone()
	}
	return n
}

type Store struct {
	committed *storeLayer
	open      []*txHandle // transactions begun and not finished
	writer    *txHandle   // the one that holds the write lock (has written)
	lastRowid int64
	dbRows    []*rowsHandle // cursors opened through the DB handle (pool connections)
	txOpen    bool
	txSeq     int
	log       []string
	// connection pool (database/sql keeps free connections on a stack: the most recently returned
	// one is handed out next); per-connection state is what a PRAGMA leaves behind
	freeConns []*connState
}

type connState struct {
	queryOnly bool // PRAGMA query_only = ON was executed on this connection
}

func (st *Store) acquireConn() *connState {
	if n := len(st.freeConns); n > 0 {
		c := st.freeConns[n-1]
		st.freeConns = st.freeConns[:n-1]
		return c
	}
	return &connState{}
}

func (st *Store) releaseConn(c *connState) {
	if c != nil {
		st.freeConns = append(st.freeConns, c)
	}
}

// nextConn: the connection a statement run through the DB handle would get (it goes back right after)
func (st *Store) nextConn() *connState {
	if n := len(st.freeConns); n > 0 {
		return st.freeConns[n-1]
	}
	return nil
}

func sqlIsWrite(text string) bool {
	t := strings.ToUpper(strings.TrimSpace(text))
	for _, k := range []string{"INSERT", "UPDATE", "DELETE", "REPLACE", "CREATE", "DROP", "ALTER"} {
		if strings.HasPrefix(t, k) {
			return true
		}
	}
	return false
}

func newStore() *Store {
	return &Store{committed: &storeLayer{tables: map[string]*sqlTable{}}}
}

type sqlErr struct{ msg string }

func (e sqlErr) Error() string { return e.msg }

// evaluation context
type sqlEnv struct {
	in       *Interp
	layer    *storeLayer
	params   []Value
	rows     []*sqlRow  // current row per from-item
	tabs     []*sqlTable
	aliases  []string
	excluded *sqlRow
	exclTab  *sqlTable
	group    []([]*sqlRow) // rows of the group for aggregates (each entry: joined row tuple)
	inAgg    bool
}

func (in *Interp) sqlTruth(v Value) *sym.Term {
	f := in.F
	switch x := v.(type) {
	case nil:
		return f.False
	case *sym.Term:
		if x.Sort == sym.SBool {
			return x
		}
		return f.Not(f.Eq(x, f.Int(0)))
	case string:
		return f.False
	}
	in.fail("unsupported", fmt.Sprintf("sql: truth value of %T", v))
	return nil
}

func (in *Interp) sqlInt(v Value) Value {
	if t, ok := v.(*sym.Term); ok && t.Sort == sym.SBool {
		return in.F.Ite(t, in.F.Int(1), in.F.Int(0))
	}
	return v
}

var int64Min = new(big.Int).Neg(pow2(63))
var int64Max = new(big.Int).Sub(pow2(63), big.NewInt(1))

func (in *Interp) sqlCheckOverflow(t *sym.Term) *sym.Term {
	f := in.F
	if t.Lo != nil && t.Hi != nil && t.Lo.Cmp(int64Min) >= 0 && t.Hi.Cmp(int64Max) <= 0 {
		return t
	}
	over := f.Or(f.Lt(t, f.BigInt(int64Min)), f.Gt(t, f.BigInt(int64Max)))
	in.S.SetTimeout(in.Ex.BranchTimeoutMs)
	r := in.S.CheckWith(over)
	in.S.SetTimeout(in.Ex.TimeoutMs)
	in.Res.Queries++
	if r == sym.Unknown {
		// undecided: the harness bounds make an overflow impossible by construction;
		// counted and reported, integer semantics kept
		in.Res.OverflowUnknown++
		return t
	}
	if r == sym.Sat {
		// fork: the overflowing inputs end as unsupported (the run is inconclusive for them),
		// the others go on, so that a violation among them is still found and reported
		if in.Branch(over) {
			in.fail("unsupported", "sql: integer overflow in SQL arithmetic (SQLite would promote to REAL); outside the model, harness must bound balances")
		}
	}
	return t
}

func sqlEqualConcrete(a, b Value) (bool, bool) {
	switch x := a.(type) {
	case string:
		if y, ok := b.(string); ok {
			return x == y, true
		}
		if _, ok := b.(BlobVal); ok {
			return false, true
		}
	case BlobVal:
		if y, ok := b.(BlobVal); ok {
			return string(x) == string(y), true
		}
		if _, ok := b.(string); ok {
			return false, true
		}
	}
	return false, false
}

// sqlCompare returns the Bool term for a <op> b (NULL -> nil).
func (e *sqlEnv) compare(op string, a, b Value) Value {
	in := e.in
	f := in.F
	if a == nil || b == nil {
		return nil
	}
	a, b = in.sqlInt(a), in.sqlInt(b)
	ta, aok := a.(*sym.Term)
	tb, bok := b.(*sym.Term)
	if aok && bok {
		switch op {
		case "=":
			return f.Eq(ta, tb)
		case "!=":
			return f.Not(f.Eq(ta, tb))
		case "<":
			return f.Lt(ta, tb)
		case "<=":
			return f.Le(ta, tb)
		case ">":
			return f.Gt(ta, tb)
		case ">=":
			return f.Ge(ta, tb)
		}
	}
	// storage class ordering: INTEGER < TEXT < BLOB
	rank := func(v Value) int {
		switch v.(type) {
		case *sym.Term, FloatVal:
			return 0
		case string:
			return 1
		case BlobVal:
			return 2
		}
		return -1
	}
	ra, rb := rank(a), rank(b)
	if ra < 0 || rb < 0 {
		in.fail("unsupported", fmt.Sprintf("sql: comparison of %T and %T", a, b))
	}
	var c int
	if ra != rb {
		if ra < rb {
			c = -1
		} else {
			c = 1
		}
	} else {
		var sa, sb string
		switch x := a.(type) {
		case string:
			sa, sb = x, b.(string)
		case BlobVal:
			sa, sb = string(x), string(b.(BlobVal))
		case FloatVal:
			y, ok := b.(FloatVal)
			if !ok || !x.Known || !y.Known || x.T != nil || y.T != nil {
				in.fail("unsupported", "sql: comparison of symbolic REAL values")
			}
			switch {
			case x.F < y.F:
				sa, sb = "a", "b"
			case x.F > y.F:
				sa, sb = "b", "a"
			}
		default:
			in.fail("unsupported", "sql: float comparison")
		}
		c = strings.Compare(sa, sb)
	}
	switch op {
	case "=":
		return f.Bool(c == 0)
	case "!=":
		return f.Bool(c != 0)
	case "<":
		return f.Bool(c < 0)
	case "<=":
		return f.Bool(c <= 0)
	case ">":
		return f.Bool(c > 0)
	case ">=":
		return f.Bool(c >= 0)
	}
	in.fail("unsupported", "sql: operator "+op)
	return nil
}

func (e *sqlEnv) lookupCol(tbl, col string) Value {
	if tbl == "excluded" && e.excluded != nil {
		i, ok := e.exclTab.colIdx[col]
		if !ok {
			panic(sqlErr{"no such column: excluded." + col})
		}
		return e.excluded.vals[i]
	}
	found := -1
	var val Value
	for k, t := range e.tabs {
		if tbl != "" && tbl != e.aliases[k] && tbl != t.name {
			continue
		}
		if i, ok := t.colIdx[col]; ok {
			if found >= 0 && tbl == "" {
				// ambiguous: SQLite errors; the repo's queries do not do this
				panic(sqlErr{"ambiguous column name: " + col})
			}
			found = k
			if e.rows[k] == nil {
				val = nil
			} else {
				val = e.rows[k].vals[i]
			}
		} else if col == "rowid" && tbl != "" {
			found = k
			val = e.in.F.Int(e.rows[k].rowid)
		}
	}
	if found < 0 {
		if tbl != "" {
			panic(sqlErr{"no such column: " + tbl + "." + col})
		}
		panic(sqlErr{"no such column: " + col})
	}
	return val
}

func isAggregate(x *sqlExpr) bool {
	if x == nil {
		return false
	}
	if x.k == "func" {
		switch x.s {
		case "COUNT", "SUM", "TOTAL", "GROUP_CONCAT":
			return true
		case "MIN", "MAX":
			if len(x.args) == 1 {
				return true
			}
		}
	}
	for _, a := range x.args {
		if isAggregate(a) {
			return true
		}
	}
	return false
}

func (e *sqlEnv) eval(x *sqlExpr) Value {
	in := e.in
	f := in.F
	switch x.k {
	case "lit-int":
		v, _ := new(big.Int).SetString(x.s, 10)
		return f.BigInt(v)
	case "lit-str":
		return x.s
	case "null":
		return nil
	case "param":
		if x.n >= len(e.params) {
			panic(sqlErr{fmt.Sprintf("missing argument with index %d", x.n+1)})
		}
		return e.params[x.n]
	case "alias":
		return e.eval(x.args[0])
	case "col":
		return e.lookupCol(x.tbl, x.s)
	case "un":
		v := e.eval(x.args[0])
		if x.s == "NOT" {
			if v == nil {
				return nil
			}
			return f.Not(in.sqlTruth(v))
		}
		if v == nil {
			return nil
		}
		t, ok := in.sqlInt(v).(*sym.Term)
		if !ok {
			in.fail("unsupported", "sql: unary minus on non-integer")
		}
		return in.sqlCheckOverflow(f.Neg(t))
	case "bin":
		switch x.s {
		case "AND":
			a, b := e.eval(x.args[0]), e.eval(x.args[1])
			// three-valued logic collapsed: NULL treated as false (only used in WHERE)
			return f.And(in.sqlTruth(a), in.sqlTruth(b))
		case "OR":
			a, b := e.eval(x.args[0]), e.eval(x.args[1])
			return f.Or(in.sqlTruth(a), in.sqlTruth(b))
		case "+", "-", "*", "/", "%":
			a, b := in.sqlInt(e.eval(x.args[0])), in.sqlInt(e.eval(x.args[1]))
			if a == nil || b == nil {
				return nil
			}
			ta, ok1 := a.(*sym.Term)
			tb, ok2 := b.(*sym.Term)
			if !ok1 || !ok2 {
				in.fail("unsupported", fmt.Sprintf("sql: arithmetic on %T,%T", a, b))
			}
			switch x.s {
			case "+":
				return in.sqlCheckOverflow(f.Add(ta, tb))
			case "-":
				return in.sqlCheckOverflow(f.Sub(ta, tb))
			case "*":
				return in.sqlCheckOverflow(f.Mul(ta, tb))
			}
			in.fail("unsupported", "sql: operator "+x.s)
		default:
			return e.compare(x.s, e.eval(x.args[0]), e.eval(x.args[1]))
		}
	case "isnull":
		v := e.eval(x.args[0])
		return f.Bool((v == nil) != x.neg)
	case "in":
		v := e.eval(x.args[0])
		var cs []*sym.Term
		for _, a := range x.args[1:] {
			c := e.compare("=", v, e.eval(a))
			if c != nil {
				cs = append(cs, c.(*sym.Term))
			}
		}
		r := f.Or(cs...)
		if x.neg {
			return f.Not(r)
		}
		return r
	case "case":
		n := len(x.args)
		for i := 0; i+1 < n; i += 2 {
			if in.Branch(in.sqlTruth(e.eval(x.args[i]))) {
				return e.eval(x.args[i+1])
			}
		}
		return e.eval(x.args[n-1])
	case "exists":
		rs := in.runSelect(e.layer, x.sub, e.params, e)
		if len(rs.rows) > 0 {
			return in.F.Int(1)
		}
		return in.F.Int(0)
	case "subq":
		rs := in.runSelect(e.layer, x.sub, e.params, e)
		if len(rs.rows) == 0 {
			return nil
		}
		return rs.rows[0][0]
	case "func":
		return e.evalFunc(x)
	case "star":
		in.fail("unsupported", "sql: * in expression")
	}
	in.fail("unsupported", "sql: expression kind "+x.k)
	return nil
}

func (e *sqlEnv) evalFunc(x *sqlExpr) Value {
	in := e.in
	f := in.F
	switch x.s {
	case "COALESCE", "IFNULL":
		for _, a := range x.args {
			if v := e.eval(a); v != nil {
				return v
			}
		}
		return nil
	case "NULLIF":
		a, b := e.eval(x.args[0]), e.eval(x.args[1])
		c := e.compare("=", a, b)
		if c != nil && in.Branch(c.(*sym.Term)) {
			return nil
		}
		return a
	case "MIN", "MAX":
		if len(x.args) >= 2 {
			acc := e.eval(x.args[0])
			for _, a := range x.args[1:] {
				v := e.eval(a)
				if acc == nil || v == nil {
					return nil
				}
				ta, tb := in.sqlInt(acc).(*sym.Term), in.sqlInt(v).(*sym.Term)
				if x.s == "MIN" {
					acc = f.Ite(f.Lt(tb, ta), tb, ta)
				} else {
					acc = f.Ite(f.Gt(tb, ta), tb, ta)
				}
			}
			return acc
		}
		fallthrough
	case "COUNT", "SUM", "TOTAL":
		if e.group == nil {
			in.fail("unsupported", "sql: aggregate outside aggregate query")
		}
		var acc Value
		cnt := 0
		allNonNeg := true
		for _, tuple := range e.group {
			sub := *e
			sub.rows = tuple
			sub.group = nil
			if x.s == "COUNT" && x.args[0].k == "star" {
				cnt++
				continue
			}
			v := sub.eval(x.args[0])
			if v == nil {
				continue
			}
			cnt++
			tv, ok := in.sqlInt(v).(*sym.Term)
			if !ok {
				in.fail("unsupported", "sql: aggregate over non-integer")
			}
			if acc == nil {
				acc = tv
				continue
			}
			ta := acc.(*sym.Term)
			switch x.s {
			case "MIN":
				acc = f.Ite(f.Lt(tv, ta), tv, ta)
			case "MAX":
				acc = f.Ite(f.Gt(tv, ta), tv, ta)
			case "SUM", "TOTAL":
				if tv.Lo == nil || tv.Lo.Sign() < 0 || ta.Lo == nil || ta.Lo.Sign() < 0 {
					allNonNeg = false
				}
				if allNonNeg {
					acc = f.Add(ta, tv) // partial sums are monotone: one check at the end
				} else {
					acc = in.sqlCheckOverflow(f.Add(ta, tv))
				}
			}
		}
		if (x.s == "SUM" || x.s == "TOTAL") && acc != nil && allNonNeg {
			acc = in.sqlCheckOverflow(acc.(*sym.Term))
		}
		if x.s == "COUNT" {
			return f.Int(int64(cnt))
		}
		return acc
	}
	in.fail("unsupported", "sql: function "+x.s)
	return nil
}

type resultSet struct {
	cols []string
	rows [][]Value
}

func (in *Interp) table(layer *storeLayer, name string) *sqlTable {
	t, ok := layer.tables[name]
	if !ok {
		panic(sqlErr{"no such table: " + name})
	}
	return t
}

func (in *Interp) runSelect(layer *storeLayer, sel *sqlSelect, params []Value, outer *sqlEnv) *resultSet {
	env := &sqlEnv{in: in, layer: layer, params: params}
	for _, fr := range sel.from {
		var t *sqlTable
		switch fr.table {
		case "pragma_table_info":
			t = &sqlTable{name: fr.table, colIdx: map[string]int{"cid": 0, "name": 1, "type": 2}, cols: []*sqlCol{{name: "cid"}, {name: "name"}, {name: "type"}}}
			if src, ok := layer.tables[fr.arg]; ok {
				for i, c := range src.cols {
					t.rows = append(t.rows, &sqlRow{rowid: int64(i + 1), vals: []Value{in.F.Int(int64(i)), c.name, c.typ}})
				}
			}
		case "sqlite_master":
			t = &sqlTable{name: fr.table, colIdx: map[string]int{"type": 0, "name": 1, "tbl_name": 2, "sql": 3}, cols: []*sqlCol{{name: "type"}, {name: "name"}, {name: "tbl_name"}, {name: "sql"}}}
			for i, n := range layer.order {
				t.rows = append(t.rows, &sqlRow{rowid: int64(i + 1), vals: []Value{"table", n, n, layer.tables[n].ddl}})
			}
		default:
			t = in.table(layer, fr.table)
		}
		env.tabs = append(env.tabs, t)
		a := fr.alias
		if a == "" {
			a = fr.table
		}
		env.aliases = append(env.aliases, a)
	}
	env.rows = make([]*sqlRow, len(env.tabs))
	// enumerate the cross product, filter by WHERE
	var matched [][]*sqlRow
	var rec func(k int)
	rec = func(k int) {
		if k == len(env.tabs) {
			if sel.where != nil {
				if !in.Branch(in.sqlTruth(env.eval(sel.where))) {
					return
				}
			}
			matched = append(matched, append([]*sqlRow{}, env.rows...))
			return
		}
		for _, r := range env.tabs[k].rows {
			env.rows[k] = r
			rec(k + 1)
		}
		env.rows[k] = nil
	}
	if len(env.tabs) == 0 {
		matched = [][]*sqlRow{{}}
	} else {
		rec(0)
	}
	rs := &resultSet{}
	// column names
	for _, c := range sel.cols {
		switch c.k {
		case "star":
			for _, t := range env.tabs {
				for _, col := range t.cols {
					rs.cols = append(rs.cols, col.name)
				}
			}
		case "alias":
			rs.cols = append(rs.cols, c.alias)
		case "col":
			rs.cols = append(rs.cols, c.s)
		default:
			rs.cols = append(rs.cols, "expr")
		}
	}
	agg := false
	for _, c := range sel.cols {
		if isAggregate(c) {
			agg = true
		}
	}
	if len(sel.groupBy) > 0 {
		in.fail("unsupported", "sql: GROUP BY")
	}
	project := func(tuple []*sqlRow, group [][]*sqlRow) []Value {
		env.rows = tuple
		env.group = group
		var out []Value
		for _, c := range sel.cols {
			if c.k == "star" {
				for k := range env.tabs {
					out = append(out, tuple[k].vals...)
				}
				continue
			}
			out = append(out, in.sqlInt(env.eval(c)))
		}
		return out
	}
	if agg {
		var rep []*sqlRow
		if len(matched) > 0 {
			rep = matched[0]
		} else {
			rep = make([]*sqlRow, len(env.tabs))
		}
		g := matched
		if g == nil {
			g = [][]*sqlRow{}
		}
		rs.rows = append(rs.rows, project(rep, g))
		return rs
	}
	// ORDER BY (stable insertion sort, comparisons may fork)
	if len(sel.order) > 0 {
		keys := make([][]Value, len(matched))
		for i, tuple := range matched {
			env.rows = tuple
			for _, o := range sel.order {
				keys[i] = append(keys[i], in.sqlInt(env.eval(o.e)))
			}
		}
		less := func(a, b int) bool {
			for k, o := range sel.order {
				x, y := keys[a][k], keys[b][k]
				var lt, gt Value
				if x == nil && y == nil {
					continue
				}
				if x == nil { // NULLs first
					return !o.desc
				}
				if y == nil {
					return o.desc
				}
				lt = env.compare("<", x, y)
				gt = env.compare(">", x, y)
				if in.Branch(lt.(*sym.Term)) {
					return !o.desc
				}
				if in.Branch(gt.(*sym.Term)) {
					return o.desc
				}
			}
			return false
		}
		idx := make([]int, len(matched))
		for i := range idx {
			idx[i] = i
		}
		for i := 1; i < len(idx); i++ {
			for j := i; j > 0 && less(idx[j], idx[j-1]); j-- {
				idx[j], idx[j-1] = idx[j-1], idx[j]
			}
		}
		nm := make([][]*sqlRow, len(matched))
		for i, k := range idx {
			nm[i] = matched[k]
		}
		matched = nm
	}
	off, lim := 0, -1
	if sel.offset != nil {
		off = int(in.Concretize(in.sqlInt(env.eval(sel.offset)).(*sym.Term)))
	}
	if sel.limit != nil {
		lim = int(in.Concretize(in.sqlInt(env.eval(sel.limit)).(*sym.Term)))
	}
	for i, tuple := range matched {
		if i < off {
			continue
		}
		if lim >= 0 && len(rs.rows) >= lim {
			break
		}
		row := project(tuple, nil)
		if sel.distinct {
			dup := false
			for _, prev := range rs.rows {
				same := true
				for k := range row {
					if row[k] == nil || prev[k] == nil {
						if row[k] != nil || prev[k] != nil {
							same = false
							break
						}
						continue
					}
					if !in.Branch(env.compare("=", row[k], prev[k]).(*sym.Term)) {
						same = false
						break
					}
				}
				if same {
					dup = true
					break
				}
			}
			if dup {
				continue
			}
		}
		rs.rows = append(rs.rows, row)
	}
	return rs
}

// ---- DDL / DML ----

func (in *Interp) sqlCreate(layer *storeLayer, st *sqlStmt) {
	if _, ok := layer.tables[st.table]; ok {
		return // IF NOT EXISTS
	}
	t := &sqlTable{name: st.table, colIdx: map[string]int{}, rowidC: -1, nextID: 1, ddl: st.text}
	for i, cd := range st.colDefs {
		c := &sqlCol{name: cd.name, typ: cd.typ, notNull: cd.notNull, def: cd.def, checks: cd.checks}
		if cd.pk && cd.typ == "INTEGER" {
			c.rowidPK = true
			t.rowidC = i
		} else if cd.pk {
			t.uniques = append(t.uniques, []int{i})
		}
		if cd.unique {
			t.uniques = append(t.uniques, []int{i})
		}
		t.cols = append(t.cols, c)
		t.colIdx[cd.name] = i
	}
	for _, u := range st.uniques {
		var idx []int
		for _, n := range u {
			i, ok := t.colIdx[n]
			if !ok {
				panic(sqlErr{"no such column in constraint: " + n})
			}
			idx = append(idx, i)
		}
		if len(idx) == 1 && idx[0] == t.rowidC {
			continue
		}
		t.uniques = append(t.uniques, idx)
	}
	layer.tables[st.table] = t
	layer.order = append(layer.order, st.table)
}

// conflictRow finds an existing row conflicting with vals on any (or the given) uniqueness constraint.
func (in *Interp) conflictRow(t *sqlTable, vals []Value, rowid *sym.Term, only []string, skip *sqlRow) (*sqlRow, string) {
	f := in.F
	env := &sqlEnv{in: in}
	match := func(cols []int) bool {
		if only == nil {
			return true
		}
		if len(only) != len(cols) {
			return false
		}
		for i, c := range cols {
			if t.cols[c].name != only[i] {
				return false
			}
		}
		return true
	}
	if t.rowidC >= 0 && rowid != nil && match([]int{t.rowidC}) {
		for _, r := range t.rows {
			if r == skip {
				continue
			}
			if in.Branch(f.Eq(r.vals[t.rowidC].(*sym.Term), rowid)) {
				return r, t.name + "." + t.cols[t.rowidC].name
			}
		}
	}
	for _, u := range t.uniques {
		if !match(u) {
			continue
		}
		for _, r := range t.rows {
			if r == skip {
				continue
			}
			var cs []*sym.Term
			null := false
			for _, c := range u {
				cmp := env.compare("=", r.vals[c], vals[c])
				if cmp == nil {
					null = true
					break
				}
				cs = append(cs, cmp.(*sym.Term))
			}
			if null {
				continue
			}
			if in.Branch(f.And(cs...)) {
				var names []string
				for _, c := range u {
					names = append(names, t.name+"."+t.cols[c].name)
				}
				return r, strings.Join(names, ", ")
			}
		}
	}
	return nil, ""
}

func (in *Interp) checkRow(t *sqlTable, vals []Value) {
	for i, c := range t.cols {
		if vals[i] == nil && c.notNull && !c.rowidPK {
			panic(sqlErr{"NOT NULL constraint failed: " + t.name + "." + c.name})
		}
		if in.mode["sql-nocheck"] == 1 {
			continue
		}
		for _, ck := range c.checks {
			env := &sqlEnv{in: in, tabs: []*sqlTable{t}, aliases: []string{t.name}, rows: []*sqlRow{{vals: vals}}}
			v := env.eval(ck)
			if v == nil {
				continue
			}
			if !in.Branch(in.sqlTruth(v)) {
				panic(sqlErr{"CHECK constraint failed: insufficient balance"})
			}
		}
	}
}

type execResult struct {
	lastID   int64
	affected int64
}

func (in *Interp) sqlInsertRow(st *Store, t *sqlTable, vals []Value, stmt *sqlStmt) (affected int64) {
	f := in.F
	var rowidT *sym.Term
	if t.rowidC >= 0 && vals[t.rowidC] != nil {
		rt, ok := in.sqlInt(vals[t.rowidC]).(*sym.Term)
		if !ok {
			panic(sqlErr{"datatype mismatch"})
		}
		rowidT = rt
	}
	if stmt.conflict != "" || stmt.orReplace {
		var only []string
		if stmt.conflict != "" {
			only = stmt.conflictOn
		}
		// REPLACE: delete every conflicting row, then insert
		if stmt.orReplace {
			for {
				r, _ := in.conflictRow(t, vals, rowidT, nil, nil)
				if r == nil {
					break
				}
				for i, x := range t.rows {
					if x == r {
						t.rows = append(t.rows[:i:i], t.rows[i+1:]...)
						break
					}
				}
			}
		} else if r, _ := in.conflictRow(t, vals, rowidT, only, nil); r != nil {
			if stmt.conflict == "nothing" {
				return 0
			}
			// DO UPDATE SET ...
			nv := append([]Value{}, r.vals...)
			env := &sqlEnv{in: in, tabs: []*sqlTable{t}, aliases: []string{t.name}, rows: []*sqlRow{r},
				excluded: &sqlRow{vals: vals}, exclTab: t}
			for _, s := range stmt.sets {
				i, ok := t.colIdx[s.col]
				if !ok {
					panic(sqlErr{"no such column: " + s.col})
				}
				nv[i] = in.sqlInt(env.eval(s.e))
			}
			in.checkRow(t, nv)
			if c, what := in.conflictRow(t, nv, nil, nil, r); c != nil {
				panic(sqlErr{"UNIQUE constraint failed: " + what})
			}
			r.vals = nv
			in.monitorWrite(t, "upsert-update")
			return 1
		}
	}
	// plain insert: any other uniqueness conflict aborts the statement
	if c, what := in.conflictRow(t, vals, rowidT, nil, nil); c != nil {
		if stmt.conflict == "nothing" && stmt.conflictOn == nil {
			return 0
		}
		panic(sqlErr{"UNIQUE constraint failed: " + what})
	}
	row := &sqlRow{vals: vals}
	if t.rowidC >= 0 {
		if rowidT == nil {
			// auto-assign: max+1 over concrete ids
			mx := int64(0)
			for _, r := range t.rows {
				rt := r.vals[t.rowidC].(*sym.Term)
				if !rt.IsConst() {
					in.fail("unsupported", "sql: auto rowid with symbolic existing ids in "+t.name)
				}
				if rt.I.Int64() > mx {
					mx = rt.I.Int64()
				}
			}
			row.rowid = mx + 1
			vals[t.rowidC] = f.Int(row.rowid)
		} else if rowidT.IsConst() {
			row.rowid = rowidT.I.Int64()
		} else {
			row.rowid = -1
		}
	} else {
		row.rowid = t.nextID
		t.nextID++
	}
	in.checkRow(t, vals)
	t.rows = append(t.rows, row)
	st.lastRowid = row.rowid
	in.monitorWrite(t, "insert")
	return 1
}

func (in *Interp) monitorWrite(t *sqlTable, kind string) {
	in.monitor["write:"+t.name]++
	if t.name == "pn_rate" && kind != "insert" {
		in.monitor["pn_rate-mutated"]++
	}
}

func (in *Interp) sqlExecStmt(st *Store, layer *storeLayer, stmt *sqlStmt, params []Value) execResult {
	f := in.F
	switch stmt.k {
	case "skip":
		return execResult{}
	case "create":
		in.sqlCreate(layer, stmt)
		return execResult{}
	case "drop":
		if _, ok := layer.tables[stmt.table]; ok {
			delete(layer.tables, stmt.table)
			for i, n := range layer.order {
				if n == stmt.table {
					layer.order = append(layer.order[:i:i], layer.order[i+1:]...)
					break
				}
			}
		}
		return execResult{}
	case "insert":
		t := in.table(layer, stmt.table)
		build := func(src []Value, cols []string) []Value {
			vals := make([]Value, len(t.cols))
			set := make([]bool, len(t.cols))
			if cols == nil {
				if len(src) != len(t.cols) {
					panic(sqlErr{fmt.Sprintf("table %s has %d columns but %d values were supplied", t.name, len(t.cols), len(src))})
				}
				copy(vals, src)
				for i := range set {
					set[i] = true
				}
			} else {
				if len(src) != len(cols) {
					panic(sqlErr{fmt.Sprintf("%d values for %d columns", len(src), len(cols))})
				}
				for k, c := range cols {
					i, ok := t.colIdx[c]
					if !ok {
						panic(sqlErr{fmt.Sprintf("table %s has no column named %s", t.name, c)})
					}
					vals[i] = src[k]
					set[i] = true
				}
			}
			for i, c := range t.cols {
				if !set[i] && c.def != nil {
					env := &sqlEnv{in: in}
					vals[i] = env.eval(c.def)
				}
			}
			return vals
		}
		var total int64
		if stmt.sel != nil {
			rs := in.runSelect(layer, stmt.sel, params, nil)
			for _, r := range rs.rows {
				total += in.sqlInsertRow(st, t, build(append([]Value{}, r...), stmt.cols), stmt)
			}
		} else {
			env := &sqlEnv{in: in, layer: layer, params: params}
			src := make([]Value, len(stmt.values))
			for i, v := range stmt.values {
				src[i] = in.sqlInt(env.eval(v))
			}
			total = in.sqlInsertRow(st, t, build(src, stmt.cols), stmt)
		}
		return execResult{lastID: st.lastRowid, affected: total}
	case "update":
		t := in.table(layer, stmt.table)
		var n int64
		for _, r := range t.rows {
			env := &sqlEnv{in: in, layer: layer, params: params, tabs: []*sqlTable{t}, aliases: []string{t.name}, rows: []*sqlRow{r}}
			if stmt.where != nil && !in.Branch(in.sqlTruth(env.eval(stmt.where))) {
				continue
			}
			nv := append([]Value{}, r.vals...)
			for _, s := range stmt.sets {
				i, ok := t.colIdx[s.col]
				if !ok {
					panic(sqlErr{"no such column: " + s.col})
				}
				nv[i] = in.sqlInt(env.eval(s.e))
			}
			in.checkRow(t, nv)
			r.vals = nv
			n++
			in.monitorWrite(t, "update")
		}
		_ = f
		return execResult{lastID: st.lastRowid, affected: n}
	case "delete":
		t := in.table(layer, stmt.table)
		var keep []*sqlRow
		var n int64
		for _, r := range t.rows {
			env := &sqlEnv{in: in, layer: layer, params: params, tabs: []*sqlTable{t}, aliases: []string{t.name}, rows: []*sqlRow{r}}
			if stmt.where == nil || in.Branch(in.sqlTruth(env.eval(stmt.where))) {
				n++
				in.monitorWrite(t, "delete")
				continue
			}
			keep = append(keep, r)
		}
		t.rows = keep
		return execResult{lastID: st.lastRowid, affected: n}
	case "select":
		in.runSelect(layer, stmt.sel, params, nil)
		return execResult{}
	}
	in.fail("unsupported", "sql: statement kind "+stmt.k)
	return execResult{}
}

var _ = types.Typ

// sharedLockHeldByOthers: does a connection other than tx's hold a SHARED lock that will not go
// away by itself (an unfinished transaction that has read, or an open cursor on the DB handle)?
func (st *Store) sharedLockHeldByOthers(tx *txHandle) string {
	for _, o := range st.open {
		if o != tx && !o.done && o.hasRead {
			return "read transaction left open"
		}
	}
	for _, rh := range st.dbRows {
		if !rh.closed {
			return "cursor left open @ " + rh.site + ": " + rh.text
		}
	}
	return ""
}

func (st *Store) finish(tx *txHandle) {
	if !tx.done {
		st.releaseConn(tx.conn)
		tx.conn = nil
	}
	tx.done = true
	tx.layer = nil
	if st.writer == tx {
		st.writer = nil
	}
	for i, o := range st.open {
		if o == tx {
			st.open = append(st.open[:i:i], st.open[i+1:]...)
			break
		}
	}
}
