package interp

import (
	"fmt"
	"go/types"

	"gosym/sym"

	"golang.org/x/tools/go/ssa"
)

// ---- ideal model of FAT-103 signatures (fat103.Validate) and of the entry/batch codecs ----
//
// vrt.SignEntry attaches to an entry a marker saying WHO signed WHAT (salt, chain, content,
// key types). fat103.Validate is then modelled exactly as the real function behaves under
// ideal (unforgeable, unique) signatures: ext-id count, salt window against the entry
// timestamp, RCD type mask, genuine signature over exactly this salt/chain/content, signer
// set equal to the expected address set.

type sigMarker struct {
	salt     *sym.Term
	signers  [][]byte // RCD hashes (addresses) of the signing keys, in ext-id order
	rcde     []bool
	chain    []byte
	content  interface{} // identity of the signed content (blob pointer)
}

// extPart is one opaque external id of a signed entry: the timestamp salt, or the signature of
// signer idx. The RCD external ids in between are concrete bytes. The external ids of an entry
// are a real slice (len, indexing, copying work); fat103.Validate is modelled over its elements.
type extPart struct {
	m       *sigMarker
	kind    string // "salt" | "sig"
	idx     int    // signer index (kind "sig")
	genuine bool   // false: signature bytes were altered so that it no longer verifies
	variant int    // distinguishes byte-different signatures that verify alike (RCD-e recovery byte)
}

// fakeRCD: the RCD external id of test key i (type byte + key material; concrete bytes).
func fakeRCD(i int, rcde bool) []byte {
	n := 33
	t := byte(0x01)
	if rcde {
		n, t = 65, 0x0e
	}
	b := make([]byte, n)
	b[0] = t
	for k := 1; k < n; k++ {
		b[k] = byte(0x10 + i)
	}
	return b
}

// sprMarker: the third external id of a staking record made by vrt.MakeSPR (public key ||
// signature): which test key signed which content.
type sprMarker struct {
	version int64
	height  *sym.Term
	signer  int
	content interface{}
}

const fpkg = "github.com/Factom-Asset-Tokens/factom"

func (in *Interp) contentIdentity(v Value) interface{} {
	if sv, ok := v.(SliceVal); ok {
		if b, ok := sv.Ext.(*blob); ok {
			return b
		}
		if sv.Arr == nil {
			return nil
		}
		if bs, ok := in.sliceBytes(sv); ok {
			return string(bs)
		}
	}
	return v
}

func fakeKeyAddress(i int, rcde bool) []byte {
	b := make([]byte, 32)
	for k := range b {
		b[k] = byte(0x10 + i)
	}
	b[0] = 0x51
	if rcde {
		b[0] = 0x5E
	}
	return b
}

func registerSigModel(ex *Explorer) {
	I := ex.intercepts
	// vrt.KeyAddress(i int, rcde bool) factom.FAAddress
	I[vrtPath+".KeyAddress"] = func(in *Interp, fn *ssa.Function, a []Value) Value {
		i := int(in.Concretize(a[0].(*sym.Term)))
		r := in.Branch(a[1].(*sym.Term))
		return in.bytesArray(fakeKeyAddress(i, r))
	}
	// vrt.SignEntry(e *factom.Entry, salt int64, signers []int, rcde []bool, extra int, corrupt bool)
	I[vrtPath+".SignEntry"] = func(in *Interp, fn *ssa.Function, a []Value) Value {
		ec := a[0].(*Cell)
		ev := in.load(ec).(*StructVal) // ChainID, Hash, Timestamp, ExtIDs, Content
		m := &sigMarker{salt: a[1].(*sym.Term)}
		ks := a[2].(SliceVal)
		rs := a[3].(SliceVal)
		u8 := types.Typ[types.Uint8]
		corrupt := in.Branch(a[5].(*sym.Term))
		ids := []Value{SliceVal{Ext: &extPart{m: m, kind: "salt", genuine: true}}}
		for i := 0; i < ks.Len; i++ {
			k := int(in.Concretize(in.sget(ks, i).(*sym.Term)))
			r := in.Branch(in.sget(rs, i).(*sym.Term))
			m.signers = append(m.signers, fakeKeyAddress(k, r))
			m.rcde = append(m.rcde, r)
			ids = append(ids, in.bytesToSlice(fakeRCD(k, r), u8),
				SliceVal{Ext: &extPart{m: m, kind: "sig", idx: i, genuine: !(corrupt && i == 0)}})
		}
		nExtra := int(in.Concretize(a[4].(*sym.Term)))
		for x := 0; x < nExtra; x++ {
			ids = append(ids, in.bytesToSlice([]byte("junk"), u8))
		}
		if cc, ok := ev.F[0].(*Cell); ok && cc != nil {
			m.chain, _ = in.arrayBytes(in.load(cc))
		}
		m.content = in.contentIdentity(ev.F[4])
		nv := &StructVal{F: append([]Value{}, ev.F...)}
		et := ec.T.Underlying().(*types.Struct).Field(3).Type().Underlying().(*types.Slice).Elem()
		nv.F[3] = in.sliceFrom(et, ids)
		in.storeInto(ec, ec.T, nv)
		return nil
	}
	I[vrtPath+".SealEntry"] = func(in *Interp, fn *ssa.Function, a []Value) Value { return nil }
	// vrt.MakeSPR(e *factom.Entry, version uint8, height int32, declared []byte, signer int, coinbase string)
	I[vrtPath+".MakeSPR"] = func(in *Interp, fn *ssa.Function, a []Value) Value {
		ec := a[0].(*Cell)
		ev := in.load(ec).(*StructVal)
		ver := in.Concretize(a[1].(*sym.Term))
		m := &sprMarker{version: ver, height: a[2].(*sym.Term), signer: int(in.Concretize(a[4].(*sym.Term)))}
		content := in.newBlob("spr", nil, nil)
		m.content = content.Ext
		declared := a[3].(SliceVal)
		db, ok := in.sliceBytes(declared)
		if !ok {
			in.fail("unsupported", "MakeSPR: symbolic declared id")
		}
		nv := &StructVal{F: append([]Value{}, ev.F...)}
		u8 := types.Typ[types.Uint8]
		ids := []Value{in.bytesToSlice([]byte{byte(ver)}, u8), in.bytesToSlice(db, u8), SliceVal{Ext: m}}
		et := ec.T.Underlying().(*types.Struct).Field(3).Type().Underlying().(*types.Slice).Elem()
		nv.F[3] = in.sliceFrom(et, ids)
		nv.F[4] = content
		in.storeInto(ec, ec.T, nv)
		return nil
	}
	// vrt.ValidateSPR(version uint8, height int32, entryhash []byte, extids [][]byte, content []byte) bool:
	// ideal model of graderStake.ValidateS2/S3 for versions 6 and 7
	I[vrtPath+".ValidateSPR"] = func(in *Interp, fn *ssa.Function, a []Value) Value {
		f := in.F
		ver := in.Concretize(a[0].(*sym.Term))
		if ver != 6 && ver != 7 {
			in.fail("unsupported", "ValidateSPR: only grader versions 6 and 7 are modelled")
		}
		ext := a[3].(SliceVal)
		if ext.Len != 3 {
			return f.False
		}
		v0, ok := in.sliceBytes(in.sget(ext, 0).(SliceVal))
		if !ok || len(v0) != 1 || int64(v0[0]) != ver {
			return f.False
		}
		sigv, _ := in.sget(ext, 2).(SliceVal)
		m, ok := sigv.Ext.(*sprMarker)
		if !ok {
			return f.False // arbitrary bytes: not a signature under ideal crypto
		}
		cv, _ := a[4].(SliceVal)
		if cv.Ext != m.content {
			return f.False
		}
		return f.Eq(m.height, a[1].(*sym.Term))
	}
	// vrt.MalleateSig(e *factom.Entry): a third party alters the last byte of the first
	// signature. For an ed25519 (RCD-1) signature that destroys it; for an RCD-e signature the
	// library verifies sig[:64] only ("ignore recovery byte"), so the altered entry - different
	// bytes, different entry hash - still carries a valid signature of the same message.
	I[vrtPath+".MalleateSig"] = func(in *Interp, fn *ssa.Function, a []Value) Value {
		ec := a[0].(*Cell)
		ev := in.load(ec).(*StructVal)
		ext, _ := ev.F[3].(SliceVal)
		if ext.Arr == nil || ext.Len < 3 {
			in.fail("unsupported", "MalleateSig on an entry without modelled signatures")
		}
		sigv, _ := in.sget(ext, 2).(SliceVal)
		p, ok := sigv.Ext.(*extPart)
		if !ok || p.kind != "sig" {
			in.fail("unsupported", "MalleateSig on an entry without modelled signatures")
		}
		np := *p
		np.variant = p.variant + 1
		if !p.m.rcde[p.idx] {
			np.genuine = false
		}
		ids := make([]Value, ext.Len)
		for i := 0; i < ext.Len; i++ {
			ids[i] = in.sget(ext, i)
		}
		ids[2] = SliceVal{Ext: &np}
		nv := &StructVal{F: append([]Value{}, ev.F...)}
		et := ec.T.Underlying().(*types.Struct).Field(3).Type().Underlying().(*types.Slice).Elem()
		nv.F[3] = in.sliceFrom(et, ids)
		in.storeInto(ec, ec.T, nv)
		return nil
	}
	// fat103.Validate(e factom.Entry, expected map[factom.Bytes32]struct{}, flag int) error
	I[fpkg+"/fat103.Validate"] = func(in *Interp, fn *ssa.Function, a []Value) Value {
		f := in.F
		e := a[0].(*StructVal)
		expected := a[1].(*MapVal)
		flag := in.Concretize(a[2].(*sym.Term))
		in.monitor["sig-validate-calls"]++
		nexp := 0
		if expected != nil {
			nexp = len(expected.E)
		}
		ext, _ := e.F[3].(SliceVal)
		n := 0
		if ext.Arr != nil {
			n = ext.Len
		}
		if nexp == 0 || n != 2*nexp+1 {
			return in.newError("invalid number of ExtIDs")
		}
		var m *sigMarker
		if sv, ok := in.sget(ext, 0).(SliceVal); ok {
			if p, ok := sv.Ext.(*extPart); ok && p.kind == "salt" {
				m = p.m
			}
		}
		if m == nil {
			// arbitrary third-party bytes: never a valid salt/signature under ideal crypto
			return in.newError("ExtIDs[0]: timestamp salt: invalid (ideal model: bytes not produced by a key holder)")
		}
		ts := in.timeUnix(e.F[2])
		diff := f.Sub(ts, m.salt)
		if in.Branch(f.Or(f.Lt(diff, f.Int(-43200)), f.Gt(diff, f.Int(43200)))) {
			return in.newError("ExtIDs[0]: timestamp salt: expired")
		}
		// the message that was signed binds salt, chain id and content
		var chain []byte
		if cc, ok := e.F[0].(*Cell); ok && cc != nil {
			chain, _ = in.arrayBytes(in.load(cc))
		}
		same := string(chain) == string(m.chain) && in.contentIdentity(e.F[4]) == m.content
		remaining := map[string]bool{}
		for _, me := range expected.E {
			b, _ := in.arrayBytes(me.K)
			remaining[string(b)] = true
		}
		for i := 0; i < nexp; i++ {
			rcdv, _ := in.sget(ext, 2*i+1).(SliceVal)
			rcd, okr := in.sliceBytes(rcdv)
			if rcdv.Ext != nil || !okr || len(rcd) == 0 {
				return in.newError(fmt.Sprintf("ExtIDs[%d]: invalid RCD", 2*i+1))
			}
			rcde := rcd[0] == 0x0e
			mask := int64(1) // R_ALL
			if rcde {
				mask |= 4 // R_RCDe
			} else {
				mask |= 2 // R_RCD1
			}
			if flag&mask == 0 {
				return in.newError(fmt.Sprintf("ExtIDs[%d]: rcd type is rejected by the validate mask", 2*i+1))
			}
			sigv, _ := in.sget(ext, 2*i+2).(SliceVal)
			p, oks := sigv.Ext.(*extPart)
			// the signature must be one made by the key of THIS rcd over THIS salt/chain/content
			if !oks || p.kind != "sig" || p.m != m || !p.genuine || !same || p.idx >= len(m.signers) ||
				string(fakeRCD(int(m.signers[p.idx][1]-0x10), m.rcde[p.idx])) != string(rcd) {
				return in.newError(fmt.Sprintf("ExtIDs[%d]: invalid signature", 2*i+1))
			}
			s := m.signers[p.idx]
			if !remaining[string(s)] {
				return in.newError(fmt.Sprintf("ExtIDs[%d]: unexpected or duplicate RCD Hash", 2*i+1))
			}
			delete(remaining, string(s))
		}
		in.monitor["sig-validate-ok"]++
		return IfaceVal{}
	}

	// vrt.Blob(v interface{}) []byte : content carrying a decoded value (parse stub)
	I[vrtPath+".Blob"] = func(in *Interp, fn *ssa.Function, a []Value) Value {
		iv := a[0].(IfaceVal)
		if iv.T == nil {
			return in.newBlob("garbage", nil, nil)
		}
		v, t := in.marshalTarget(iv)
		return in.newBlob("json", v, t)
	}
	// (*fat2.TransactionBatch).UnmarshalJSON(data) : parse stub (Version, Transactions, Metadata)
	I["(*github.com/pegnet/pegnetd/fat/fat2.TransactionBatch).UnmarshalJSON"] = func(in *Interp, fn *ssa.Function, a []Value) Value {
		tc := a[0].(*Cell)
		data := a[1].(SliceVal)
		if w, ok := data.Ext.(*wsVariant); ok {
			data = w.of // whitespace does not change what is decoded
		}
		if _, ok := data.Ext.(*trailingVariant); ok {
			return in.newError("*fat2.TransactionBatch: invalid character after top-level value")
		}
		if r, ok := data.Ext.(*rawJSON); ok && r.text == "<invalid>" {
			return in.newError("*fat2.TransactionBatch: invalid character (not a JSON document)")
		}
		if _, isDoc := data.Ext.(*jsonDoc); isDoc {
			// a modelled JSON document: the real decoder runs (object-level document model)
			return in.callFunction(fn, a, nil)
		}
		b, ok := data.Ext.(*blob)
		if !ok || b.kind != "json" || b.val == nil {
			return in.newError("*fat2.TransactionBatch: invalid character (parse stub: content is not a batch)")
		}
		src, ok := b.val.(*StructVal)
		if !ok || len(src.F) < 3 {
			return in.newError("*fat2.TransactionBatch: json: cannot unmarshal (parse stub: other JSON value)")
		}
		cur := in.load(tc).(*StructVal)
		nv := &StructVal{F: append([]Value{}, cur.F...)}
		nv.F[0] = src.F[0] // Version
		nv.F[1] = src.F[1] // Transactions
		nv.F[2] = src.F[2] // Metadata
		in.storeInto(tc, tc.T, nv)
		return IfaceVal{}
	}
	// factom.Entry binary codec: opaque round trip (ChainID, ExtIDs, Content; Hash recomputed = same)
	I["("+fpkg+".Entry).MarshalBinary"] = func(in *Interp, fn *ssa.Function, a []Value) Value {
		e := a[0].(*StructVal)
		return TupleVal{in.newBlob("entrybin", e, fn.Signature.Recv().Type()), IfaceVal{}}
	}
	I["(*"+fpkg+".Entry).UnmarshalBinary"] = func(in *Interp, fn *ssa.Function, a []Value) Value {
		ec := a[0].(*Cell)
		data := a[1].(SliceVal)
		b, ok := data.Ext.(*blob)
		if !ok || b.kind != "entrybin" {
			return in.newError("invalid length (codec stub: not a marshalled entry)")
		}
		src := b.val.(*StructVal)
		cur := in.load(ec).(*StructVal)
		nv := &StructVal{F: append([]Value{}, cur.F...)}
		// ChainID and Hash: verified if already set on the receiver, else populated (as the real
		// decoder does: a receiver reused for another entry fails with "invalid hash")
		for _, k := range []int{0, 1} {
			cc, _ := cur.F[k].(*Cell)
			sc, _ := src.F[k].(*Cell)
			if cc == nil {
				if sc != nil {
					nv.F[k] = in.newCell(sc.T, in.load(sc))
				}
				continue
			}
			if sc != nil {
				eq := in.deepEqual(in.load(cc), in.load(sc), sc.T)
				if !in.Branch(eq) {
					if k == 0 {
						return in.newError("invalid ChainID")
					}
					return in.newError("invalid hash")
				}
			}
		}
		nv.F[3] = src.F[3]
		nv.F[4] = src.F[4]
		in.storeInto(ec, ec.T, nv)
		return IfaceVal{}
	}
}

// vrt.NewGradingOPR / NewGradingSPR: build the dependency's record structs including
// their unexported payout/position fields.
func registerGradingModel(ex *Explorer) {
	mk := func(pkg, typ, recField string) Intercept {
		return func(in *Interp, fn *ssa.Function, a []Value) Value {
			t := in.findType(pkg, typ)
			st := t.Underlying().(*types.Struct)
			sv := in.zero(t).(*StructVal)
			for i := 0; i < st.NumFields(); i++ {
				switch st.Field(i).Name() {
				case "EntryHash":
					sv.F[i] = a[0]
				case "payout":
					sv.F[i] = a[1]
				case "position":
					sv.F[i] = a[2]
				case recField:
					sv.F[i] = a[3]
				}
			}
			return in.newCell(t, sv)
		}
	}
	ex.intercepts[vrtPath+".NewGradingOPR"] = mk("github.com/pegnet/pegnet/modules/grader", "GradingOPR", "OPR")
	ex.intercepts[vrtPath+".NewGradingSPR"] = mk("github.com/pegnet/pegnet/modules/graderStake", "GradingSPR", "SPR")
}
