package interp

import (
	"fmt"
	"math/big"
	"os"
	"runtime"
	"sort"
	"strings"
	"sync"
	"time"

	"gosym/sym"

	"golang.org/x/tools/go/ssa"
)

type Intercept func(in *Interp, fn *ssa.Function, args []Value) Value

type Violation struct {
	ID      string            `json:"id"`
	Harness string            `json:"harness"`
	Model   map[string]string `json:"model"`
	Note    string            `json:"note,omitempty"`
	Facts   map[string]string `json:"facts,omitempty"`
	Trace   string            `json:"trace,omitempty"`
}

type Witness struct {
	Class string            `json:"class"`
	Model map[string]string `json:"model"`
	Obs   map[string]string `json:"obs,omitempty"`
}

type PathResult struct {
	Trace      []Decision
	End        string
	Msg        string
	Queries    int
	Unknowns   int
	PCSize     int
	Permuted   int
	Violations []Violation
	Covers     []string
	Asserts    int
	Fallbacks  int
	OverflowUnknown int
	Steps      int
}

type Summary struct {
	Harness      string         `json:"harness"`
	Paths        int            `json:"paths"`
	Ends         map[string]int `json:"ends"`
	Queries      int            `json:"queries"`
	Unknowns     int            `json:"unknowns"`
	Asserts      int            `json:"asserts_checked"`
	Fallbacks    int            `json:"fallback_solver_queries"`
	OverflowUnknown int         `json:"sql_overflow_checks_undecided"`
	SolverTimeS  float64        `json:"solver_time_s"`
	WallS        float64        `json:"wall_s"`
	Violations   []Violation    `json:"violations"`
	Witnesses    []Witness      `json:"witnesses"`
	Covers       map[string]int `json:"covers"`
	Inconclusive []string       `json:"inconclusive"`
	Functions    []string       `json:"functions_encoded"`
	SolverErrors []string       `json:"solver_errors,omitempty"`
	MaxSteps     int            `json:"max_steps_per_path"`
}

type Explorer struct {
	Prog       *ssa.Program
	Harness    *ssa.Function
	HarnessID  string
	MaxSteps   int
	MaxPaths   int
	Workers    int
	SolverName string
	TimeoutMs  int
	BranchTimeoutMs int
	Params     map[string]int // harness parameters (bounds), read via vrt.Param
	Verbose    bool
	Deadline   time.Time
	AssertPrefixes []string
	NoInitCache bool
	SkipInitFuncs map[string]bool
	SiteStats map[string]int
	siteMu sync.Mutex

	intercepts    map[string]Intercept
	pkgIntercepts map[string]Intercept
	globalInit    map[string]func(in *Interp, c *Cell)
	InitPkgPrefix []string

	mu        sync.Mutex
	queue     [][]Decision
	active    int
	cond      *sync.Cond
	sum       Summary
	witnessed map[string]int
	violSeen  map[string]int
	funcsSeen map[string]bool
	funcsSeenFast sync.Map
	stop      bool
}

func NewExplorer(prog *ssa.Program, h *ssa.Function) *Explorer {
	ex := &Explorer{Prog: prog, Harness: h, MaxSteps: 5_000_000, MaxPaths: 200000, Workers: 8,
		SolverName: "z3-new", TimeoutMs: 20000, BranchTimeoutMs: 3000,
		intercepts: map[string]Intercept{}, pkgIntercepts: map[string]Intercept{},
		globalInit:    map[string]func(in *Interp, c *Cell){},
		InitPkgPrefix: []string{"github.com/pegnet/pegnetd"},
		witnessed:     map[string]int{}, violSeen: map[string]int{}, funcsSeen: map[string]bool{},
		Params: map[string]int{}, SkipInitFuncs: map[string]bool{"github.com/pegnet/pegnetd/cmd": true}}
	ex.cond = sync.NewCond(&ex.mu)
	ex.sum.Ends = map[string]int{}
	ex.sum.Covers = map[string]int{}
	registerIntrinsics(ex)
	registerNatives(ex)
	registerSQL(ex)
	registerFactomNatives(ex)
	registerBlobs(ex)
	registerSnapshots(ex)
	registerSigModel(ex)
	registerHashModel(ex)
	registerJSONDoc(ex)
	registerGradingModel(ex)
	registerRegexModel(ex)
	registerCtxModel(ex)
	registerThreads(ex)
	return ex
}

func (ex *Explorer) shouldInit(p *ssa.Package) bool {
	path := p.Pkg.Path()
	for _, pre := range ex.InitPkgPrefix {
		if strings.HasPrefix(path, pre) {
			return !strings.HasSuffix(path, "/zzverif/vrt")
		}
	}
	return false
}

func (ex *Explorer) lookupIntercept(fn *ssa.Function, name string) Intercept {
	if ic, ok := ex.intercepts[name]; ok {
		return ic
	}
	if fn.Pkg != nil {
		if ic, ok := ex.pkgIntercepts[fn.Pkg.Pkg.Path()]; ok {
			return ic
		}
	} else if fn.Signature.Recv() != nil || fn.Synthetic != "" {
		// methods of instantiated/wrapped functions: find package via origin object
		if o := fn.Object(); o != nil && o.Pkg() != nil {
			if ic, ok := ex.pkgIntercepts[o.Pkg().Path()]; ok {
				return ic
			}
		}
	}
	return nil
}

func (ex *Explorer) noteFunc(fn *ssa.Function) {
	if fn.Pkg == nil || !strings.HasPrefix(fn.Pkg.Pkg.Path(), "github.com/pegnet/pegnetd") {
		return
	}
	if strings.Contains(fn.Pkg.Pkg.Path(), "zzverif") {
		return
	}
	if _, ok := ex.funcsSeenFast.Load(fn); ok {
		return
	}
	ex.funcsSeenFast.Store(fn, true)
	n := fn.String()
	ex.mu.Lock()
	ex.funcsSeen[n] = true
	ex.mu.Unlock()
}

// Run explores all paths of the harness.
func (ex *Explorer) Run() *Summary {
	t0 := time.Now()
	ex.sum.Harness = ex.HarnessID
	ex.sum.MaxSteps = ex.MaxSteps
	ex.queue = [][]Decision{{}}
	var wg sync.WaitGroup
	var solverTime time.Duration
	var stMu sync.Mutex
	for w := 0; w < ex.Workers; w++ {
		wg.Add(1)
		go func(w int) {
			defer wg.Done()
			var s *sym.Solver
			npaths := 0
			wc := &workerCache{F: sym.NewFactory(), inits: map[*ssa.Package]map[*ssa.Global]*Cell{}}
			for {
				ex.mu.Lock()
				for len(ex.queue) == 0 && ex.active > 0 && !ex.stop {
					ex.cond.Wait()
				}
				if ex.stop || (len(ex.queue) == 0 && ex.active == 0) {
					ex.mu.Unlock()
					ex.cond.Broadcast()
					break
				}
				pre := ex.queue[len(ex.queue)-1]
				ex.queue = ex.queue[:len(ex.queue)-1]
				ex.active++
				ex.mu.Unlock()

				if npaths%200 == 199 {
					wc = &workerCache{F: sym.NewFactory(), inits: map[*ssa.Package]map[*ssa.Global]*Cell{}}
				}
				if s == nil || npaths%200 == 199 {
					if s != nil {
						stMu.Lock()
						solverTime += s.Time
						ex.sum.SolverErrors = append(ex.sum.SolverErrors, s.Errors...)
						stMu.Unlock()
						s.Close()
					}
					var err error
					s, err = sym.NewSolver(ex.SolverName, ex.TimeoutMs)
					if err != nil {
						panic(err)
					}
					if ex.Verbose && w == 0 && os.Getenv("GOSYM_SMTLOG") != "" {
						lf, _ := os.Create(os.Getenv("GOSYM_SMTLOG"))
						s.Log = lf
					}
				}
				npaths++
				res, forks := ex.runPath(s, pre, wc)

				ex.mu.Lock()
				ex.active--
				ex.queue = append(ex.queue, forks...)
				ex.record(res)
				if ex.sum.Paths >= ex.MaxPaths || (!ex.Deadline.IsZero() && time.Now().After(ex.Deadline)) {
					if len(ex.queue) > 0 || ex.active > 0 {
						ex.sum.Inconclusive = append(ex.sum.Inconclusive, fmt.Sprintf("exploration stopped: path/time cap reached with %d prefixes queued", len(ex.queue)))
					}
					ex.stop = true
				}
				ex.mu.Unlock()
				ex.cond.Broadcast()
			}
			if s != nil {
				stMu.Lock()
				solverTime += s.Time
				ex.sum.SolverErrors = append(ex.sum.SolverErrors, s.Errors...)
				stMu.Unlock()
				s.Close()
			}
		}(w)
	}
	wg.Wait()
	ex.sum.SolverTimeS = solverTime.Seconds()
	ex.sum.WallS = time.Since(t0).Seconds()
	for n := range ex.funcsSeen {
		ex.sum.Functions = append(ex.sum.Functions, n)
	}
	sort.Strings(ex.sum.Functions)
	if len(ex.sum.SolverErrors) > 0 {
		ex.sum.Inconclusive = append(ex.sum.Inconclusive, "solver reported errors: "+ex.sum.SolverErrors[0])
	}
	return &ex.sum
}

func (ex *Explorer) record(r *PathResult) {
	ex.sum.Paths++
	ex.sum.Ends[r.End]++
	ex.sum.Queries += r.Queries
	ex.sum.Unknowns += r.Unknowns
	ex.sum.Asserts += r.Asserts
	ex.sum.Fallbacks += r.Fallbacks
	ex.sum.OverflowUnknown += r.OverflowUnknown
	for _, c := range r.Covers {
		ex.sum.Covers[c]++
	}
	for _, v := range r.Violations {
		if ex.violSeen[v.ID] < 8 {
			ex.sum.Violations = append(ex.sum.Violations, v)
		}
		ex.violSeen[v.ID]++
	}
	switch r.End {
	case "unsupported", "unknown", "bound":
		if len(ex.sum.Inconclusive) < 20 {
			ex.sum.Inconclusive = append(ex.sum.Inconclusive, r.End+": "+r.Msg)
		}
	}
	if ex.Verbose {
		fmt.Fprintf(os.Stderr, "path %d: end=%s %s q=%d steps=%d decisions=%d covers=%v\n", ex.sum.Paths, r.End, r.Msg, r.Queries, r.Steps, len(r.Trace), r.Covers)
	}
}

func (ex *Explorer) runPath(s *sym.Solver, prefix []Decision, wc *workerCache) (res *PathResult, forks [][]Decision) {
	wc.F.Vars = nil
	in := &Interp{Prog: ex.Prog, F: wc.F, S: s, Ex: ex, wc: wc,
		globals: map[*ssa.Global]*Cell{}, inited: map[*ssa.Package]bool{},
		prefix: prefix, varSeq: map[string]int{}, monitor: map[string]int{},
		stubs: map[string]Value{}, faultAt: -1, crashAt: -1,
		sentinels: map[string]IfaceVal{}, mode: map[string]int{}}
	res = &PathResult{}
	in.Res = res
	base := s.Depth()
	s.Push()
	defer func() {
		for s.Depth() > base {
			s.Pop()
		}
		res.Trace = in.trace
		res.Steps = in.steps
		forks = in.forks
	}()
	func() {
		defer func() {
			if r := recover(); r != nil {
				switch e := r.(type) {
				case pathEnd:
					res.End, res.Msg = e.kind, e.msg
				case goPanic:
					res.End, res.Msg = "panic", e.String()
					func() {
						defer func() {
							if r2 := recover(); r2 != nil {
								if pe, ok := r2.(pathEnd); ok {
									res.End, res.Msg = pe.kind, pe.msg
									return
								}
								panic(r2)
							}
						}()
						in.reportViolation("uncaught-panic", e.String(), nil)
					}()
				default:
					buf := make([]byte, 4096)
					n := runtime.Stack(buf, false)
					res.End, res.Msg = "unsupported", fmt.Sprintf("engine error: %v @ %s\n%s", r, in.stack(), buf[:n])
				}
			}
		}()
		if ex.Harness.Pkg != nil {
			in.initPackage(ex.Harness.Pkg)
		}
		in.call(ex.Harness, nil, nil)
		in.flushAsserts()
		res.End = "done"
	}()
	in.killThreads()
	if len(in.pending) > 0 {
		// the path ended early (assume/exit/panic): assertions made before that still count
		func() {
			defer func() {
				if r := recover(); r != nil {
					if pe, ok := r.(pathEnd); ok {
						if pe.kind == "unknown" || pe.kind == "unsupported" {
							res.End, res.Msg = pe.kind, pe.msg
						}
						return
					}
					panic(r)
				}
			}()
			in.flushAsserts()
		}()
	}
	if res.End == "done" || res.End == "exit" {
		in.collectWitness()
	}
	return
}

// modelStrings converts a solver model into exportable tag -> decimal strings,
// adding the recorded Choose decisions.
func (in *Interp) exportModel(m map[string]*big.Int) map[string]string {
	out := map[string]string{}
	for _, v := range in.inputs {
		name := strings.Trim(v.Name, "|")
		if val, ok := m[v.Name]; ok {
			out[name] = val.String()
		} else {
			// unconstrained: pick lower bound or 0
			d := big.NewInt(0)
			if v.Lo != nil && v.Lo.Sign() > 0 {
				d = v.Lo
			}
			out[name] = d.String()
		}
	}
	seq := map[string]int{}
	for _, c := range in.choiceLog {
		k := c.Tag
		seq[c.Tag]++
		if seq[c.Tag] > 1 {
			k = fmt.Sprintf("%s#%d", c.Tag, seq[c.Tag])
		}
		out[k] = fmt.Sprint(c.V)
	}
	return out
}

func traceString(tr []Decision) string {
	var sb strings.Builder
	for _, d := range tr {
		if d.Kind == 'v' {
			fmt.Fprintf(&sb, "v%s:%d,", d.Val, d.V)
		} else {
			fmt.Fprintf(&sb, "%c%d/%d,", d.Kind, d.V, d.N)
		}
	}
	return sb.String()
}

func (in *Interp) reportViolation(id, note string, neg *sym.Term) {
	var m map[string]*big.Int
	in.S.Push()
	if neg != nil {
		in.S.Assert(neg)
	}
	r := in.S.Check()
	if r == sym.Sat {
		m = in.S.Model(in.F.Vars)
	}
	in.S.Pop()
	in.Res.Queries++
	if r == sym.Unknown {
		extra := neg
		if extra == nil {
			extra = in.F.True
		}
		r, m = in.fallbackCheck(extra)
	}
	if r == sym.Unsat {
		// the path itself is infeasible (it was kept after an unknown feasibility answer)
		panic(pathEnd{kind: "infeasible", msg: ""})
	}
	if r == sym.Unknown {
		panic(pathEnd{kind: "unknown", msg: "solver unknown when asked for a model of a violation of " + id + " (" + note + ")"})
	}
	in.recordViolation(id, note, m)
}

func (in *Interp) recordViolation(id, note string, m map[string]*big.Int) {
	v := Violation{ID: id, Harness: in.Ex.HarnessID, Model: in.exportModel(m), Note: note, Trace: traceString(in.trace)}
	if m != nil && len(in.observed) > 0 {
		v.Facts = map[string]string{}
		for _, o := range in.observed {
			if t, ok := o.Term.(*sym.Term); ok {
				val, _ := sym.Eval(t, m)
				v.Facts[o.Tag] = val.String()
			} else if s, ok := o.Term.(string); ok {
				v.Facts[o.Tag] = s
			}
		}
	}
	in.Res.Violations = append(in.Res.Violations, v)
}

func (in *Interp) collectWitness() {
	ex := in.Ex
	if in.constViolated {
		return // every input of this path violates an assertion: not a witness
	}
	need := false
	ex.mu.Lock()
	for _, c := range in.Res.Covers {
		if ex.witnessed[c] < ex.paramDefault("witnesses_per_class", 2) {
			need = true
		}
	}
	ex.mu.Unlock()
	if !need {
		return
	}
	// a witness is an input on which the path is taken AND every assertion holds
	in.S.Push()
	for _, c := range in.asserted {
		in.S.Assert(c)
	}
	r := in.S.Check()
	in.Res.Queries++
	var m map[string]*big.Int
	if r == sym.Sat {
		m = in.S.Model(in.F.Vars)
	}
	in.S.Pop()
	if m == nil {
		return
	}
	obs := map[string]string{}
	for _, o := range in.observed {
		switch t := o.Term.(type) {
		case *sym.Term:
			val, _ := sym.Eval(t, m)
			obs[o.Tag] = val.String()
		case string:
			obs[o.Tag] = t
		}
	}
	em := in.exportModel(m)
	ex.mu.Lock()
	for _, c := range in.Res.Covers {
		if ex.witnessed[c] < ex.paramDefault("witnesses_per_class", 2) {
			ex.witnessed[c]++
			ex.sum.Witnesses = append(ex.sum.Witnesses, Witness{Class: c, Model: em, Obs: obs})
		}
	}
	ex.mu.Unlock()
}

func (ex *Explorer) assertEnabled(id string) bool {
	if len(ex.AssertPrefixes) == 0 {
		return true
	}
	for _, p := range ex.AssertPrefixes {
		if strings.HasPrefix(id, p) {
			return true
		}
	}
	return false
}

func (ex *Explorer) paramDefault(k string, d int) int {
	if v, ok := ex.Params[k]; ok {
		return v
	}
	return d
}
