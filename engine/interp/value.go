package interp

import (
	"fmt"
	"go/types"
	"math/big"

	"gosym/sym"

	"golang.org/x/tools/go/ssa"
)

// Value is one of:
//   *sym.Term            integers (Sort Int) and booleans (Sort Bool)
//   FloatVal             float64 (concrete or unknown)
//   string               concrete Go string
//   *SymStr              string with symbolic bytes, concrete length
//   *Cell                pointer (nil pointer = (*Cell)(nil))
//   *StructVal, *ArrayVal   aggregates in value form
//   SliceVal
//   *MapVal              (nil map = (*MapVal)(nil))
//   IfaceVal             (nil interface = IfaceVal{})
//   *Closure, *ssa.Function, *ssa.Builtin
//   TupleVal
//   *Opaque              modelled handles (sql, big.Int is stored in cells)
//   *MapIter
type Value interface{}

type FloatVal struct {
	F     float64
	Known bool
	T     *sym.Term // exact dyadic model: value = T/Den (fp mode), nil otherwise
	Den   *big.Int
}

type SymStr struct {
	B []*sym.Term // bytes
}

// Cell is an addressable memory location. Scalars keep their value in V;
// structs and arrays keep one sub-cell per field/element.
type Cell struct {
	V     Value
	Elems []*Cell
	Agg   bool       // aggregate (struct/array), even when it has zero elems
	T     types.Type // type of the content
	Big   *sym.Term  // value of a math/big.Int living in this cell (nil = 0)
	Tag   string     // debug / model tags (opaque handles etc.)
	Ext   interface{} // payload for modelled library objects
	Frozen bool       // shared across paths (package-init state): writes are refused
	Shared bool       // race analysis: location shared between goroutines
}

type StructVal struct {
	F   []Value
	ext interface{}
}

type ArrayVal struct {
	E []Value
}

type SliceVal struct {
	Arr *Cell // array cell; nil for nil slice
	Off int
	Len int
	Cap int
	Ext interface{} // opaque payload (blob carrying a decoded value)
}

type mapEntry struct {
	K Value
	V Value
}

type MapVal struct {
	Shared bool
	Frozen bool
	E  []mapEntry
	KT types.Type
	VT types.Type
}

type IfaceVal struct {
	T types.Type // dynamic type; nil for nil interface
	V Value
}

type Closure struct {
	Fn   *ssa.Function
	Bind []Value
}

type TupleVal []Value

type Opaque struct {
	Kind string
	Data interface{}
}

type MapIter struct {
	keys []Value
	vals []Value
	pos  int
	str  string // string iteration
	isStr bool
	spos int
}

func isNilPtr(v Value) bool {
	c, ok := v.(*Cell)
	return ok && c == nil
}

type rangeEnt struct{ lo, hi *big.Int }

var rangeCache [64]*rangeEnt

func (in *Interp) intRange(t types.Type) (lo, hi *big.Int, ok bool) {
	b, isb := t.Underlying().(*types.Basic)
	if !isb {
		return nil, nil, false
	}
	if int(b.Kind()) < len(rangeCache) {
		if e := rangeCache[b.Kind()]; e != nil {
			return e.lo, e.hi, true
		}
	}
	defer func() {
		if ok && int(b.Kind()) < len(rangeCache) {
			rangeCache[b.Kind()] = &rangeEnt{lo, hi}
		}
	}()
	bits, signed := 0, false
	switch b.Kind() {
	case types.Int, types.Int64:
		bits, signed = 64, true
	case types.Int8:
		bits, signed = 8, true
	case types.Int16:
		bits, signed = 16, true
	case types.Int32:
		bits, signed = 32, true
	case types.Uint, types.Uint64, types.Uintptr:
		bits = 64
	case types.Uint8:
		bits = 8
	case types.Uint16:
		bits = 16
	case types.Uint32:
		bits = 32
	case types.UntypedInt, types.UntypedRune:
		bits, signed = 64, true
	default:
		return nil, nil, false
	}
	one := big.NewInt(1)
	if signed {
		hi = new(big.Int).Sub(new(big.Int).Lsh(one, uint(bits-1)), one)
		lo = new(big.Int).Neg(new(big.Int).Lsh(one, uint(bits-1)))
	} else {
		lo = big.NewInt(0)
		hi = new(big.Int).Sub(new(big.Int).Lsh(one, uint(bits)), one)
	}
	return lo, hi, true
}

func isIntType(t types.Type) bool {
	b, ok := t.Underlying().(*types.Basic)
	return ok && b.Info()&types.IsInteger != 0
}
func isBoolType(t types.Type) bool {
	b, ok := t.Underlying().(*types.Basic)
	return ok && b.Info()&types.IsBoolean != 0
}
func isFloatType(t types.Type) bool {
	b, ok := t.Underlying().(*types.Basic)
	return ok && b.Info()&types.IsFloat != 0
}
func isStringType(t types.Type) bool {
	b, ok := t.Underlying().(*types.Basic)
	return ok && b.Info()&types.IsString != 0
}

// zero returns the zero Value of type t (value form).
func (in *Interp) zero(t types.Type) Value {
	switch u := t.Underlying().(type) {
	case *types.Basic:
		switch {
		case u.Info()&types.IsInteger != 0:
			return in.F.Int(0)
		case u.Info()&types.IsBoolean != 0:
			return in.F.False
		case u.Info()&types.IsFloat != 0:
			return FloatVal{F: 0, Known: true}
		case u.Info()&types.IsString != 0:
			return ""
		case u.Kind() == types.UnsafePointer:
			return (*Cell)(nil)
		case u.Kind() == types.UntypedNil:
			return (*Cell)(nil)
		case u.Info()&types.IsComplex != 0:
			return FloatVal{Known: true}
		}
	case *types.Pointer:
		return (*Cell)(nil)
	case *types.Struct:
		s := &StructVal{F: make([]Value, u.NumFields())}
		for i := range s.F {
			s.F[i] = in.zero(u.Field(i).Type())
		}
		return s
	case *types.Array:
		a := &ArrayVal{E: make([]Value, int(u.Len()))}
		if u.Len() > 0 {
			z := in.zero(u.Elem())
			_, agg := z.(*StructVal)
			_, agg2 := z.(*ArrayVal)
			for i := range a.E {
				if (agg || agg2) && i > 0 {
					a.E[i] = in.zero(u.Elem())
				} else {
					a.E[i] = z
				}
			}
		}
		return a
	case *types.Slice:
		return SliceVal{}
	case *types.Map:
		return (*MapVal)(nil)
	case *types.Interface:
		return IfaceVal{}
	case *types.Signature:
		return (*Closure)(nil)
	case *types.Chan:
		return (*Opaque)(nil)
	case *types.Tuple:
		tv := make(TupleVal, u.Len())
		for i := range tv {
			tv[i] = in.zero(u.At(i).Type())
		}
		return tv
	}
	panic(unsupported("zero value of " + t.String()))
}

// newCell allocates a cell of type t holding v (value form).
func (in *Interp) newCell(t types.Type, v Value) *Cell {
	c := &Cell{T: t}
	in.storeInto(c, t, v)
	return c
}

func isAggType(t types.Type) bool {
	switch t.Underlying().(type) {
	case *types.Struct, *types.Array:
		return true
	}
	return false
}

// Aggregate cells are either COMPACT (Elems == nil, V holds the immutable
// *StructVal / *ArrayVal, nil = zero value) or EXPANDED (one sub-cell per
// field/element, created when somebody takes an element address).
func (in *Interp) storeInto(c *Cell, t types.Type, v Value) {
	if c.Shared {
		in.recordAccess(c, true)
		if m, ok := v.(*MapVal); ok && m != nil && !m.Shared {
			m.Shared = true // published
			if in.rs != nil {
				in.rs.names[m] = in.rs.names[c] + "(map)"
			}
		}
	}
	if c.Frozen {
		in.fail("unsupported", "write to package-init state shared across paths (run with nocache)")
	}
	if isAggType(t) {
		c.Agg = true
		if sv, ok := v.(*StructVal); ok {
			if bc, ok := sv.ext.(*bigCarrier); ok {
				c.Big = bc.v
			} else if c.Big != nil {
				c.Big = nil
			}
		}
		if c.Elems == nil {
			c.V = v
			return
		}
		switch u := t.Underlying().(type) {
		case *types.Struct:
			sv, ok := v.(*StructVal)
			if !ok {
				panic(fmt.Sprintf("store: struct expected for %s, got %T", t, v))
			}
			for i, e := range c.Elems {
				in.storeInto(e, u.Field(i).Type(), sv.F[i])
			}
		case *types.Array:
			av, ok := v.(*ArrayVal)
			if !ok {
				panic(fmt.Sprintf("store: array expected for %s, got %T", t, v))
			}
			for i, e := range c.Elems {
				in.storeInto(e, u.Elem(), av.E[i])
			}
		}
		return
	}
	c.V = v
}

type bigCarrier struct{ v *sym.Term }

// ensureAgg expands a compact aggregate cell into sub-cells.
func (in *Interp) ensureAgg(c *Cell) {
	if c.Elems != nil {
		return
	}
	frozen := c.Frozen
	defer func() {
		if frozen {
			for _, e := range c.Elems {
				e.Frozen = true
			}
		}
	}()
	c.Frozen = false
	defer func() { c.Frozen = frozen }()
	switch u := c.T.Underlying().(type) {
	case *types.Struct:
		n := u.NumFields()
		if n == 0 {
			c.Agg = true
			c.Elems = []*Cell{}
			return
		}
		slab := make([]Cell, n)
		elems := make([]*Cell, n)
		sv, _ := c.V.(*StructVal)
		for i := range elems {
			ft := u.Field(i).Type()
			slab[i].T = ft
			elems[i] = &slab[i]
			if sv != nil {
				in.storeInto(elems[i], ft, sv.F[i])
			} else if isAggType(ft) {
				slab[i].Agg = true
			}
		}
		c.Agg = true
		c.Elems = elems
		c.V = nil
	case *types.Array:
		n := int(u.Len())
		slab := make([]Cell, n)
		elems := make([]*Cell, n)
		av, _ := c.V.(*ArrayVal)
		et := u.Elem()
		agg := isAggType(et)
		for i := range elems {
			slab[i].T = et
			elems[i] = &slab[i]
			if av != nil {
				in.storeInto(elems[i], et, av.E[i])
			} else if agg {
				slab[i].Agg = true
			}
		}
		c.Agg = true
		c.Elems = elems
		c.V = nil
	default:
		panic(unsupported("ensureAgg on non-aggregate " + c.T.String()))
	}
}

// load reads a cell into value form.
func (in *Interp) load(c *Cell) Value {
	if c == nil {
		panic(goPanic{msg: "runtime error: invalid memory address or nil pointer dereference"})
	}
	if c.Shared {
		in.recordAccess(c, false)
		if m, ok := c.V.(*MapVal); ok && m != nil && !m.Shared {
			m.Shared = true
			if in.rs != nil {
				in.rs.names[m] = in.rs.names[c] + "(map)"
			}
		}
	}
	if c.Agg || (c.V == nil && c.T != nil && isAggType(c.T)) {
		if c.Elems == nil {
			if c.V == nil {
				c.V = in.zero(c.T)
			}
			if c.Big != nil {
				if sv, ok := c.V.(*StructVal); ok {
					if bc, ok := sv.ext.(*bigCarrier); !ok || bc.v != c.Big {
						nsv := &StructVal{F: sv.F, ext: &bigCarrier{c.Big}}
						return nsv
					}
				}
			}
			return c.V
		}
		switch c.T.Underlying().(type) {
		case *types.Struct:
			s := &StructVal{F: make([]Value, len(c.Elems))}
			for i, e := range c.Elems {
				s.F[i] = in.load(e)
			}
			if c.Big != nil {
				s.ext = &bigCarrier{c.Big}
			}
			return s
		case *types.Array:
			a := &ArrayVal{E: make([]Value, len(c.Elems))}
			for i, e := range c.Elems {
				a.E[i] = in.load(e)
			}
			return a
		}
	}
	if c.V == nil {
		c.V = in.zero(c.T)
	}
	return c.V
}

// alen / aget: length and element read of an array cell without expanding it.
func (in *Interp) alen(c *Cell) int {
	if c.Elems != nil {
		return len(c.Elems)
	}
	return int(c.T.Underlying().(*types.Array).Len())
}

func (in *Interp) aget(c *Cell, i int) Value {
	if c.Elems != nil {
		return in.load(c.Elems[i])
	}
	if c.V == nil {
		return in.zero(c.T.Underlying().(*types.Array).Elem())
	}
	return c.V.(*ArrayVal).E[i]
}

// acell returns the address of element i (expands the array).
func (in *Interp) acell(c *Cell, i int) *Cell {
	in.ensureAgg(c)
	return c.Elems[i]
}

func (in *Interp) sget(s SliceVal, i int) Value  { return in.aget(s.Arr, s.Off+i) }
func (in *Interp) scell(s SliceVal, i int) *Cell { return in.acell(s.Arr, s.Off+i) }

// valuesEqual builds the Go == comparison of two values of (static) type t.
func (in *Interp) valuesEqual(a, b Value, t types.Type) *sym.Term {
	f := in.F
	switch x := a.(type) {
	case *sym.Term:
		y := b.(*sym.Term)
		return f.Eq(x, y)
	case string:
		switch y := b.(type) {
		case string:
			return f.Bool(x == y)
		case *SymStr:
			return in.symStrEq(y, x)
		}
	case *SymStr:
		switch y := b.(type) {
		case string:
			return in.symStrEq(x, y)
		case *SymStr:
			if len(x.B) != len(y.B) {
				return f.False
			}
			cs := []*sym.Term{}
			for i := range x.B {
				cs = append(cs, f.Eq(x.B[i], y.B[i]))
			}
			return f.And(cs...)
		}
	case FloatVal:
		y := b.(FloatVal)
		if x.Known && y.Known {
			return f.Bool(x.F == y.F)
		}
		panic(unsupported("comparison of unknown floats"))
	case *Cell:
		y, _ := b.(*Cell)
		return f.Bool(x == y)
	case *StructVal:
		y := b.(*StructVal)
		st := t.Underlying().(*types.Struct)
		cs := []*sym.Term{}
		for i := range x.F {
			cs = append(cs, in.valuesEqual(x.F[i], y.F[i], st.Field(i).Type()))
		}
		return f.And(cs...)
	case *ArrayVal:
		y := b.(*ArrayVal)
		at := t.Underlying().(*types.Array)
		cs := []*sym.Term{}
		for i := range x.E {
			cs = append(cs, in.valuesEqual(x.E[i], y.E[i], at.Elem()))
		}
		return f.And(cs...)
	case IfaceVal:
		y, ok := b.(IfaceVal)
		if !ok {
			panic(fmt.Sprintf("iface compared with %T", b))
		}
		if x.T == nil || y.T == nil {
			return f.Bool(x.T == nil && y.T == nil)
		}
		if !types.Identical(x.T, y.T) {
			return f.False
		}
		return in.valuesEqual(x.V, y.V, x.T)
	case *MapVal:
		y, _ := b.(*MapVal)
		return f.Bool(x == y)
	case SliceVal:
		y := b.(SliceVal)
		// only comparison with nil is legal
		return f.Bool(x.Arr == nil && y.Arr == nil && x.Ext == nil && y.Ext == nil)
	case *Closure:
		y, _ := b.(*Closure)
		return f.Bool(x == y)
	case *ssa.Function:
		y, _ := b.(*ssa.Function)
		return f.Bool(x == y)
	case *Opaque:
		y, _ := b.(*Opaque)
		return f.Bool(x == y)
	}
	panic(unsupported(fmt.Sprintf("equality of %T and %T", a, b)))
}

// deepEqual compares two values of type t by content (pointers and slices are followed):
// the equality of what an encoder would write for them. Used to compare stored blobs.
func (in *Interp) deepEqual(a, b Value, t types.Type) *sym.Term {
	f := in.F
	switch x := a.(type) {
	case *Cell:
		y, _ := b.(*Cell)
		if x == nil || y == nil {
			return f.Bool(x == nil && y == nil)
		}
		if x == y {
			return f.True
		}
		if x.Big != nil || y.Big != nil {
			xb, yb := x.Big, y.Big
			if xb == nil {
				xb = f.Int(0)
			}
			if yb == nil {
				yb = f.Int(0)
			}
			return f.Eq(xb, yb)
		}
		if x.Ext != nil || y.Ext != nil {
			return f.Bool(x.Ext == y.Ext)
		}
		var et types.Type = x.T
		if p, ok := t.Underlying().(*types.Pointer); ok {
			et = p.Elem()
		}
		return in.deepEqual(in.load(x), in.load(y), et)
	case SliceVal:
		y := b.(SliceVal)
		if (x.Arr == nil && x.Ext == nil) || (y.Arr == nil && y.Ext == nil) {
			return f.Bool(x.Arr == nil && x.Ext == nil && y.Arr == nil && y.Ext == nil)
		}
		if x.Ext != nil || y.Ext != nil {
			bx, _ := x.Ext.(*blob)
			by, _ := y.Ext.(*blob)
			if bx == nil || by == nil || bx.kind != by.kind || bx.typ == nil || by.typ == nil || !types.Identical(bx.typ, by.typ) {
				return f.Bool(x.Ext == y.Ext)
			}
			return in.blobEqual(bx, by)
		}
		if x.Len != y.Len {
			return f.False
		}
		var et types.Type
		if st, ok := t.Underlying().(*types.Slice); ok {
			et = st.Elem()
		}
		cs := []*sym.Term{}
		for i := 0; i < x.Len; i++ {
			e := et
			if e == nil {
				e = in.scell(x, i).T
			}
			cs = append(cs, in.deepEqual(in.sget(x, i), in.sget(y, i), e))
		}
		return f.And(cs...)
	case *StructVal:
		y := b.(*StructVal)
		st := t.Underlying().(*types.Struct)
		cs := []*sym.Term{}
		for i := range x.F {
			cs = append(cs, in.deepEqual(x.F[i], y.F[i], st.Field(i).Type()))
		}
		return f.And(cs...)
	case *ArrayVal:
		y := b.(*ArrayVal)
		at := t.Underlying().(*types.Array)
		cs := []*sym.Term{}
		for i := range x.E {
			cs = append(cs, in.deepEqual(x.E[i], y.E[i], at.Elem()))
		}
		return f.And(cs...)
	case IfaceVal:
		y, ok := b.(IfaceVal)
		if !ok {
			return f.False
		}
		if x.T == nil || y.T == nil {
			return f.Bool(x.T == nil && y.T == nil)
		}
		if !types.Identical(x.T, y.T) {
			return f.False
		}
		return in.deepEqual(x.V, y.V, x.T)
	}
	return in.valuesEqual(a, b, t)
}

// blobEqual: equality of two encoded values of the same kind and type.
func (in *Interp) blobEqual(x, y *blob) *sym.Term {
	if x.ser == y.ser {
		return in.F.True
	}
	if x.val == nil || y.val == nil {
		return in.F.False
	}
	if x.kind == "entrybin" {
		// the entry encoding carries ChainID, ExtIDs and Content only
		sx, sy := x.val.(*StructVal), y.val.(*StructVal)
		st := x.typ.Underlying().(*types.Struct)
		cs := []*sym.Term{}
		for _, k := range []int{1, 3, 4} {
			cs = append(cs, in.deepEqual(sx.F[k], sy.F[k], st.Field(k).Type()))
		}
		return in.F.And(cs...)
	}
	return in.deepEqual(x.val, y.val, x.typ)
}

func (in *Interp) symStrEq(s *SymStr, c string) *sym.Term {
	f := in.F
	if len(s.B) != len(c) {
		return f.False
	}
	cs := []*sym.Term{}
	for i := range s.B {
		cs = append(cs, f.Eq(s.B[i], f.Int(int64(c[i]))))
	}
	return f.And(cs...)
}

// copyValue deep-copies aggregates so value semantics hold.
func copyValue(v Value) Value {
	switch x := v.(type) {
	case *StructVal:
		if x == nil {
			return x
		}
		n := &StructVal{F: make([]Value, len(x.F)), ext: x.ext}
		for i := range x.F {
			n.F[i] = copyValue(x.F[i])
		}
		return n
	case *ArrayVal:
		if x == nil {
			return x
		}
		n := &ArrayVal{E: make([]Value, len(x.E))}
		for i := range x.E {
			n.E[i] = copyValue(x.E[i])
		}
		return n
	}
	return v
}
