package interp

import (
	"strings"
	"go/types"

	"gosym/sym"

	"golang.org/x/tools/go/ssa"
)

// context.Context model (enough for isDone / WithCancel), viper stand-in, crash/fault oracles.

type ctxState struct{ cancelled bool }

func registerCtxModel(ex *Explorer) {
	I := ex.intercepts
	mkCtx := func(in *Interp, st *ctxState) IfaceVal {
		t := types.NewPointer(in.findType("context", "cancelCtx"))
		return IfaceVal{T: t, V: &NativeObj{Kind: "ctx", Data: st, Call: func(in *Interp, m string, a []Value) Value {
			switch m {
			case "Err":
				if st.cancelled {
					return in.globalSentinel("context", "Canceled")
				}
				return IfaceVal{}
			}
			in.fail("unsupported", "context method "+m)
			return nil
		}}}
	}
	I["context.Background"] = func(in *Interp, fn *ssa.Function, a []Value) Value { return mkCtx(in, &ctxState{}) }
	I["context.TODO"] = I["context.Background"]
	I["context.WithCancel"] = func(in *Interp, fn *ssa.Function, a []Value) Value {
		st := &ctxState{}
		if p, ok := a[0].(IfaceVal); ok {
			if no, ok := p.V.(*NativeObj); ok {
				if ps, ok := no.Data.(*ctxState); ok && ps.cancelled {
					st.cancelled = true
				}
			}
		}
		cancel := NativeFunc(func(in *Interp, args []Value) Value {
			st.cancelled = true
			return nil
		})
		return TupleVal{mkCtx(in, st), cancel}
	}
	I["github.com/pegnet/pegnetd/node.isDone"] = func(in *Interp, fn *ssa.Function, a []Value) Value {
		if iv, ok := a[0].(IfaceVal); ok {
			if no, ok := iv.V.(*NativeObj); ok {
				if st, ok := no.Data.(*ctxState); ok {
					return in.F.Bool(st.cancelled)
				}
			}
		}
		return in.F.False
	}
	// viper stand-in: one key/value map per path (Set, then GetBool/GetString/... of the same key
	// return what was set); every other key reads as the zero value
	ex.pkgIntercepts["github.com/spf13/viper"] = func(in *Interp, fn *ssa.Function, a []Value) Value {
		name := fn.Name()
		if fn.Signature.Recv() != nil && len(a) >= 2 {
			if key, ok := a[1].(string); ok {
				if name == "Set" && len(a) == 3 {
					if in.viperKV == nil {
						in.viperKV = map[string]Value{}
					}
					v := a[2]
					if iv, ok := v.(IfaceVal); ok {
						v = iv.V
					}
					in.viperKV[strings.ToLower(key)] = v
					return nil
				}
				if strings.HasPrefix(name, "Get") && len(a) == 2 {
					if v, ok := in.viperKV[strings.ToLower(key)]; ok && fn.Signature.Results().Len() == 1 {
						return v
					}
				}
			}
		}
		return in.zeroResults(fn)
	}
	// vrt.CrashAt(k): the k-th DB-API call (counted from NewDB) kills the process
	I[vrtPath+".CrashAt"] = func(in *Interp, fn *ssa.Function, a []Value) Value {
		in.crashAt = int(in.Concretize(a[0].(*sym.Term)))
		return nil
	}
	// vrt.FaultAt(k): the k-th DB-API call fails with an error and has no effect
	I[vrtPath+".FaultAt"] = func(in *Interp, fn *ssa.Function, a []Value) Value {
		in.faultAt = int(in.Concretize(a[0].(*sym.Term)))
		return nil
	}
	// vrt.Reopen(db): what a new process sees: committed state only
	I[vrtPath+".Reopen"] = func(in *Interp, fn *ssa.Function, a []Value) Value {
		st, _ := in.storeOf(a[0].(*Cell))
		for _, t := range append([]*txHandle{}, st.open...) {
			st.finish(t)
		}
		st.dbRows = nil // the dead process's cursors are gone with its connections
		in.crashAt = -1
		in.faultAt = -1
		return in.newHandle("DB", &dbHandle{st})
	}
	I[vrtPath+".IsCrash"] = func(in *Interp, fn *ssa.Function, a []Value) Value {
		iv, ok := a[0].(IfaceVal)
		if ok {
			if s, ok := iv.V.(string); ok && s == "VERIF-CRASH" {
				return in.F.True
			}
		}
		return in.F.False
	}
}
