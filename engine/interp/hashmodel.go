package interp

import (
	"crypto/sha256"
	"fmt"
	"go/types"
	"strings"

	"golang.org/x/tools/go/ssa"
)

// Ideal model of crypto/sha256 for code that only copies and compares digests (cache keys,
// identifiers): a digest is a concrete 32-byte value determined by the sequence of bytes written,
// where an opaque chunk (a modelled signature, salt or encoded blob) counts by its identity. Equal
// inputs give equal digests, different inputs different ones (collision-free). Hashing symbolic
// bytes is unsupported (the model could not decide equality of two such inputs).

type hasherState struct {
	chunks []string
}

func (in *Interp) hashChunk(v Value) string {
	sv, ok := v.(SliceVal)
	if !ok {
		in.fail("unsupported", fmt.Sprintf("sha256 model: input of type %T", v))
	}
	if sv.Ext != nil {
		return fmt.Sprintf("<opaque %p>", sv.Ext)
	}
	if sv.Arr == nil {
		return ""
	}
	b, ok := in.sliceBytes(sv)
	if !ok {
		in.fail("unsupported", "sha256 model: symbolic bytes hashed")
	}
	return fmt.Sprintf("%x", b)
}

func hashOf(chunks []string) []byte {
	// concatenation semantics: writing "ab","c" equals writing "a","bc" for concrete chunks;
	// opaque chunks are delimited
	var sb strings.Builder
	for _, c := range chunks {
		if strings.HasPrefix(c, "<opaque") {
			sb.WriteString("|" + c + "|")
		} else {
			sb.WriteString(c)
		}
	}
	h := sha256.Sum256([]byte(sb.String()))
	return h[:]
}

func registerHashModel(ex *Explorer) {
	I := ex.intercepts
	I["crypto/sha256.New"] = func(in *Interp, fn *ssa.Function, a []Value) Value {
		dt := in.findType("crypto/sha256", "digest")
		c := &Cell{T: dt, Ext: &hasherState{}}
		return IfaceVal{T: types.NewPointer(dt), V: c}
	}
	I["(*crypto/sha256.digest).Write"] = func(in *Interp, fn *ssa.Function, a []Value) Value {
		st := a[0].(*Cell).Ext.(*hasherState)
		st.chunks = append(st.chunks, in.hashChunk(a[1]))
		n := 0
		if sv, ok := a[1].(SliceVal); ok {
			n = sv.Len
			if sv.Ext != nil && sv.Arr == nil {
				n = in.blobLen(sv)
			}
		}
		return TupleVal{in.F.Int(int64(n)), IfaceVal{}}
	}
	I["(*crypto/sha256.digest).Sum"] = func(in *Interp, fn *ssa.Function, a []Value) Value {
		st := a[0].(*Cell).Ext.(*hasherState)
		prefix := a[1].(SliceVal)
		var pb []byte
		if prefix.Arr != nil && prefix.Len > 0 {
			b, ok := in.sliceBytes(prefix)
			if !ok {
				in.fail("unsupported", "sha256 model: Sum appended to symbolic bytes")
			}
			pb = b
		}
		return in.bytesToSlice(append(pb, hashOf(st.chunks)...), types.Typ[types.Uint8])
	}
	I["(*crypto/sha256.digest).Reset"] = func(in *Interp, fn *ssa.Function, a []Value) Value {
		a[0].(*Cell).Ext.(*hasherState).chunks = nil
		return nil
	}
	I["(*crypto/sha256.digest).Size"] = func(in *Interp, fn *ssa.Function, a []Value) Value { return in.F.Int(32) }
	I["(*crypto/sha256.digest).BlockSize"] = func(in *Interp, fn *ssa.Function, a []Value) Value { return in.F.Int(64) }
	I["crypto/sha256.Sum256"] = func(in *Interp, fn *ssa.Function, a []Value) Value {
		return in.bytesArray(hashOf([]string{in.hashChunk(a[0])}))
	}
}
