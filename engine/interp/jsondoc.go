package interp

import (
	"fmt"
	"go/types"
	"reflect"
	"strings"

	"golang.org/x/tools/go/ssa"
)

// Object-level model of JSON documents, for the decoders that check canonical form by length
// (fat2's UnmarshalJSON methods: decode the known keys as json.RawMessage, then compare len(data)
// with the length the known keys account for). A document is an ordered list of (key, raw value);
// keys may repeat and may be unknown. Raw values are opaque (their inner syntax is the parse stub's
// business) but have a length, and two literals are known by text: `[]` and `null`.
//   len(doc)       = 2 + sum(len(key)+3+len(value)) + (n-1)        (compact form)
//   json.Unmarshal(doc, &struct{ X json.RawMessage `json:"x"` ... }) : last duplicate wins,
//                    unknown keys ignored, absent keys leave the field nil
// What is NOT modelled: whitespace, string escapes, number syntax, nesting below one object level.

type jsonDoc struct {
	keys []string
	vals []SliceVal
}

type rawJSON struct{ text string }

// trailingVariant: a JSON value followed by further non-whitespace bytes (a second value,
// garbage): invalid as a document, but a streaming decoder's first Decode returns the value.
type trailingVariant struct{ of SliceVal }

// jsonReader / jsonDecoder: bytes.NewReader(data) and json.NewDecoder(reader) over modelled data
type jsonReader struct{ data SliceVal }
type jsonDecoder struct {
	data SliceVal
	used bool
}

// wsVariant: the same JSON text with insignificant whitespace added (different bytes, same
// compact form, same decoded value).
type wsVariant struct{ of SliceVal }

func (in *Interp) jsonValLen(v SliceVal) int {
	switch x := v.Ext.(type) {
	case *rawJSON:
		return len(x.text)
	case *jsonDoc:
		return in.jsonDocLen(x)
	case nil:
		return v.Len
	}
	return in.blobLen(v)
}

func (in *Interp) jsonDocLen(d *jsonDoc) int {
	n := 2
	for i, k := range d.keys {
		n += len(k) + 3 + in.jsonValLen(d.vals[i])
		if i > 0 {
			n++
		}
	}
	return n
}

func jsonKeyOf(tag string, name string) string {
	t := reflect.StructTag(tag).Get("json")
	if t == "" {
		return name
	}
	if i := strings.IndexByte(t, ','); i >= 0 {
		t = t[:i]
	}
	if t == "" {
		return name
	}
	return t
}

// unmarshalDoc decodes a document into a struct whose fields are all json.RawMessage.
func (in *Interp) unmarshalDoc(d *jsonDoc, dc *Cell, st *types.Struct) Value {
	cur := in.load(dc).(*StructVal)
	nv := &StructVal{F: append([]Value{}, cur.F...)}
	for i := 0; i < st.NumFields(); i++ {
		f := st.Field(i)
		if f.Type().String() != "encoding/json.RawMessage" {
			in.fail("unsupported", "json document decoded into a struct with a non-RawMessage field "+f.Name())
		}
		key := jsonKeyOf(st.Tag(i), f.Name())
		for j, k := range d.keys {
			if strings.EqualFold(k, key) {
				nv.F[i] = d.vals[j] // last one wins
			}
		}
	}
	in.storeInto(dc, dc.T, nv)
	return IfaceVal{}
}

func registerJSONDoc(ex *Explorer) {
	I := ex.intercepts
	// vrt.JSONDoc(keys []string, vals [][]byte) []byte
	I[vrtPath+".JSONDoc"] = func(in *Interp, fn *ssa.Function, a []Value) Value {
		ks := a[0].(SliceVal)
		vs := a[1].(SliceVal)
		if ks.Len != vs.Len {
			in.fail("unsupported", "JSONDoc: keys and values differ in number")
		}
		d := &jsonDoc{}
		for i := 0; i < ks.Len; i++ {
			d.keys = append(d.keys, str(in.sget(ks, i)))
			d.vals = append(d.vals, in.sget(vs, i).(SliceVal))
		}
		return SliceVal{Ext: d}
	}
	// vrt.RawJSON(text string) []byte
	I[vrtPath+".RawJSON"] = func(in *Interp, fn *ssa.Function, a []Value) Value {
		return SliceVal{Ext: &rawJSON{text: str(a[0])}}
	}
	// vrt.WithTrailing(content []byte) []byte
	I[vrtPath+".WithTrailing"] = func(in *Interp, fn *ssa.Function, a []Value) Value {
		sv := a[0].(SliceVal)
		if sv.Ext == nil {
			in.fail("unsupported", "WithTrailing of concrete bytes")
		}
		return SliceVal{Ext: &trailingVariant{of: sv}}
	}
	I["bytes.NewReader"] = func(in *Interp, fn *ssa.Function, a []Value) Value {
		sv := a[0].(SliceVal)
		if sv.Ext == nil && sv.Arr != nil {
			in.fail("unsupported", "bytes.NewReader over concrete bytes (only modelled JSON data is supported)")
		}
		return &Cell{T: in.findType("bytes", "Reader"), Ext: &jsonReader{data: sv}}
	}
	I["encoding/json.NewDecoder"] = func(in *Interp, fn *ssa.Function, a []Value) Value {
		iv, _ := a[0].(IfaceVal)
		c, _ := iv.V.(*Cell)
		var r *jsonReader
		if c != nil {
			r, _ = c.Ext.(*jsonReader)
		}
		if r == nil {
			in.fail("unsupported", "json.NewDecoder over a reader that is not a modelled bytes.Reader")
		}
		return &Cell{T: in.findType("encoding/json", "Decoder"), Ext: &jsonDecoder{data: r.data}}
	}
	I["(*encoding/json.Decoder).DisallowUnknownFields"] = func(in *Interp, fn *ssa.Function, a []Value) Value { return nil }
	// Decode reads the NEXT value of the stream: the first Decode yields the first value whatever
	// follows it; a type with its own UnmarshalJSON gets that value's bytes
	I["(*encoding/json.Decoder).Decode"] = func(in *Interp, fn *ssa.Function, a []Value) Value {
		d := a[0].(*Cell).Ext.(*jsonDecoder)
		if d.used {
			in.fail("unsupported", "second Decode on a modelled json.Decoder")
		}
		d.used = true
		data := d.data
		if tv, ok := data.Ext.(*trailingVariant); ok {
			data = tv.of
		}
		dst := a[1].(IfaceVal)
		if dst.T != nil {
			ms := in.Prog.MethodSets.MethodSet(dst.T)
			if sel := ms.Lookup(nil, "UnmarshalJSON"); sel != nil {
				if m := in.Prog.MethodValue(sel); m != nil {
					return in.call(m, []Value{dst.V, data}, nil)
				}
			}
		}
		return in.Ex.intercepts["encoding/json.Unmarshal"](in, fn, []Value{data, dst})
	}
	// vrt.Reformat(content []byte) []byte
	I[vrtPath+".Reformat"] = func(in *Interp, fn *ssa.Function, a []Value) Value {
		sv := a[0].(SliceVal)
		if sv.Ext == nil {
			in.fail("unsupported", "Reformat of concrete bytes")
		}
		return SliceVal{Ext: &wsVariant{of: sv}}
	}
	I[fpkg+"/jsonlen.Compact"] = func(in *Interp, fn *ssa.Function, a []Value) Value {
		sv := a[0].(SliceVal)
		if w, ok := sv.Ext.(*wsVariant); ok {
			return w.of
		}
		if _, ok := sv.Ext.(*trailingVariant); ok {
			// json.Compact fails on trailing data; jsonlen.Compact ignores the error and returns what
			// was written before it: not a document any decoder below accepts
			return SliceVal{Ext: &rawJSON{text: "<invalid>"}}
		}
		if sv.Ext == nil && sv.Arr != nil {
			in.fail("unsupported", "jsonlen.Compact of concrete bytes (only modelled documents are supported)")
		}
		return sv // modelled documents are compact by construction
	}
	_ = fmt.Sprintf
}
