package interp

import (
	"fmt"
	"go/types"
	"sync"
)

// Goroutines and channels, sequentialised. Every interpreted goroutine runs in its own host
// goroutine but only the holder of the baton executes; the baton changes hands when the running
// goroutine blocks on a channel operation or ends. Scheduling is deterministic (lowest-numbered
// runnable goroutine next) except for ONE source of nondeterminism that is explored as an oracle:
// when a receiver finds several senders waiting on an unbuffered channel, any of them may be the
// one that gets through (vrt.Mode("recvoracle", 1)). Preemption between channel operations is not
// modelled (no shared-memory races are decided here; that is the lockset analysis).
//
// Outcomes: a goroutine that panics without recovering ends the path as a panic (process crash);
// "all goroutines asleep" ends it as a deadlock (reported as an uncaught panic, which is what the
// Go runtime does); goroutines still blocked when the harness returns are discarded.

type chanVal struct {
	capacity int
	buf      []Value
	closed   bool
	sendq    []*gwait
	recvq    []*gwait
	et       types.Type
}

type gwait struct {
	t   *gthread
	val Value
}

type gthread struct {
	id       int
	resume   chan int // 0: run, 1: exit (path is over)
	done     bool
	blocked  bool
	curFrame *frame
	depth    int
	recvVal  Value
	recvOk   bool
	byClose  bool // a blocked sender woken because the channel was closed
}

type gsched struct {
	threads []*gthread
	cur     *gthread
	abort   interface{}
	wg      sync.WaitGroup
}

type gKill struct{}

func (in *Interp) sched() *gsched {
	if in.gs == nil {
		main := &gthread{id: 0, resume: make(chan int)}
		in.gs = &gsched{threads: []*gthread{main}, cur: main}
	}
	return in.gs
}

func (in *Interp) makeChan(et types.Type, capacity int) *Opaque {
	return &Opaque{Kind: "chan", Data: &chanVal{capacity: capacity, et: et}}
}

func (in *Interp) chanOf(v Value) *chanVal {
	o, _ := v.(*Opaque)
	if o == nil {
		in.fail("unsupported", "operation on a nil channel (blocks forever)")
	}
	cv, ok := o.Data.(*chanVal)
	if !ok {
		in.fail("unsupported", "channel without a model")
	}
	return cv
}

// goStart: `go f(args...)`.
func (in *Interp) goStart(fv Value, args []Value) {
	gs := in.sched()
	t := &gthread{id: len(gs.threads), resume: make(chan int)}
	gs.threads = append(gs.threads, t)
	gs.wg.Add(1)
	go func() {
		defer gs.wg.Done()
		if code := <-t.resume; code == 1 {
			t.done = true
			return
		}
		in.curFrame, in.depth = nil, 0
		killed := false
		func() {
			defer func() {
				if r := recover(); r != nil {
					if _, ok := r.(gKill); ok {
						killed = true
						return
					}
					if gp, ok := r.(goPanic); ok {
						// an unrecovered panic in a goroutine takes the process down
						r = goPanic{msg: "panic in goroutine: " + gp.String()}
					}
					gs.abort = r
				}
			}()
			in.callValue(fv, args)
		}()
		t.done = true
		if killed {
			return
		}
		in.gExit(t)
	}()
}

// gExit: the running goroutine t has ended (or aborted the path): hand the baton on.
func (in *Interp) gExit(t *gthread) {
	gs := in.gs
	main := gs.threads[0]
	if gs.abort != nil {
		gs.cur = main
		main.blocked = false
		main.resume <- 0
		return
	}
	next := in.pickRunnable()
	if next == nil {
		gs.abort = goPanic{msg: "fatal error: all goroutines are asleep - deadlock!"}
		gs.cur = main
		main.blocked = false
		main.resume <- 0
		return
	}
	gs.cur = next
	next.resume <- 0
}

func (in *Interp) pickRunnable() *gthread {
	for _, t := range in.gs.threads {
		if !t.done && !t.blocked && t != in.gs.cur {
			return t
		}
	}
	return nil
}

// gBlock parks the running goroutine (already queued on some channel) until it is made
// runnable again and scheduled.
func (in *Interp) gBlock() {
	gs := in.gs
	me := gs.cur
	me.blocked = true
	me.curFrame, me.depth = in.curFrame, in.depth
	next := in.pickRunnable()
	if next == nil {
		me.blocked = false
		panic(goPanic{msg: "fatal error: all goroutines are asleep - deadlock!"})
	}
	gs.cur = next
	next.resume <- 0
	code := <-me.resume
	if code == 1 {
		panic(gKill{})
	}
	in.curFrame, in.depth = me.curFrame, me.depth
	if gs.abort != nil && me.id == 0 {
		r := gs.abort
		gs.abort = nil
		panic(r)
	}
}

// gYield: a preemption point placed by a harness stub ("the request is in flight"): under the
// oracle the running goroutine may be overtaken by the next runnable one.
func (in *Interp) gYield() {
	gs := in.sched()
	if in.mode["recvoracle"] != 1 {
		return
	}
	next := in.pickRunnable()
	if next == nil {
		return
	}
	if in.Choose("overtaken", 2) == 0 {
		return
	}
	me := gs.cur
	me.curFrame, me.depth = in.curFrame, in.depth
	gs.cur = next
	next.resume <- 0
	code := <-me.resume
	if code == 1 {
		panic(gKill{})
	}
	in.curFrame, in.depth = me.curFrame, me.depth
	if gs.abort != nil && me.id == 0 {
		r := gs.abort
		gs.abort = nil
		panic(r)
	}
}

func (in *Interp) chanSend(chv Value, v Value) {
	ch := in.chanOf(chv)
	in.sched()
	if ch.closed {
		panic(goPanic{msg: "send on closed channel"})
	}
	if len(ch.recvq) > 0 {
		w := ch.recvq[0]
		ch.recvq = ch.recvq[1:]
		w.t.recvVal, w.t.recvOk = copyValue(v), true
		w.t.blocked = false
		return
	}
	if len(ch.buf) < ch.capacity {
		ch.buf = append(ch.buf, copyValue(v))
		return
	}
	me := in.gs.cur
	me.byClose = false
	ch.sendq = append(ch.sendq, &gwait{t: me, val: copyValue(v)})
	in.gBlock()
	if me.byClose {
		me.byClose = false
		panic(goPanic{msg: "send on closed channel"})
	}
}

func (in *Interp) chanRecv(chv Value) (Value, bool) {
	ch := in.chanOf(chv)
	in.sched()
	for {
		if len(ch.buf) > 0 {
			v := ch.buf[0]
			ch.buf = ch.buf[1:]
			if len(ch.sendq) > 0 {
				w := ch.sendq[0]
				ch.sendq = ch.sendq[1:]
				ch.buf = append(ch.buf, w.val)
				w.t.blocked = false
			}
			return v, true
		}
		if len(ch.sendq) > 0 {
			k := 0
			if len(ch.sendq) > 1 && in.mode["recvoracle"] == 1 {
				k = in.Choose("arrives-first", len(ch.sendq))
			}
			w := ch.sendq[k]
			ch.sendq = append(ch.sendq[:k:k], ch.sendq[k+1:]...)
			w.t.blocked = false
			return w.val, true
		}
		if ch.closed {
			return in.zero(ch.et), false
		}
		// nothing there yet: let the others run; if somebody delivered directly to us we are done
		me := in.gs.cur
		me.recvVal, me.recvOk = nil, false
		w := &gwait{t: me}
		ch.recvq = append(ch.recvq, w)
		in.gBlock()
		// woken: either a value was handed over, or the channel was closed
		still := false
		for _, q := range ch.recvq {
			if q == w {
				still = true
			}
		}
		if still {
			// spurious (should not happen): retry
			for i, q := range ch.recvq {
				if q == w {
					ch.recvq = append(ch.recvq[:i:i], ch.recvq[i+1:]...)
					break
				}
			}
			continue
		}
		if me.recvOk {
			return me.recvVal, true
		}
		return in.zero(ch.et), false
	}
}

func (in *Interp) chanClose(chv Value) {
	ch := in.chanOf(chv)
	if ch.closed {
		panic(goPanic{msg: "close of closed channel"})
	}
	ch.closed = true
	for _, w := range ch.recvq {
		w.t.recvVal, w.t.recvOk = nil, false
		w.t.blocked = false
	}
	ch.recvq = nil
	for _, w := range ch.sendq {
		w.t.byClose = true
		w.t.blocked = false
	}
	ch.sendq = nil
}

// killThreads ends every parked goroutine of this path (called when the path is over).
func (in *Interp) killThreads() {
	if in.gs == nil {
		return
	}
	for _, t := range in.gs.threads[1:] {
		if !t.done {
			t.resume <- 1
		}
	}
	in.gs.wg.Wait()
	in.gs = nil
}

var _ = fmt.Sprintf
