package interp

import (
	"fmt"
	"go/types"
	"math/big"
	"strings"

	"gosym/sym"

	"golang.org/x/tools/go/ssa"
)

const vrtPath = "github.com/pegnet/pegnetd/zzverif/vrt"

func (in *Interp) freshVar(tag string, s sym.Sort, lo, hi *big.Int) *sym.Term {
	in.varSeq[tag]++
	name := tag
	if in.varSeq[tag] > 1 {
		name = fmt.Sprintf("%s#%d", tag, in.varSeq[tag])
	}
	v := in.F.Var("|"+name+"|", s, lo, hi)
	in.inputs = append(in.inputs, v)
	return v
}

func str(v Value) string {
	s, ok := v.(string)
	if !ok {
		panic(unsupported(fmt.Sprintf("string expected, got %T", v)))
	}
	return s
}

func registerIntrinsics(ex *Explorer) {
	reg := func(name string, ic Intercept) { ex.intercepts[vrtPath+"."+name] = ic }
	u := func(bits uint) Intercept {
		return func(in *Interp, fn *ssa.Function, a []Value) Value {
			hi := new(big.Int).Sub(pow2(bits), big.NewInt(1))
			return in.freshVar(str(a[0]), sym.SInt, big.NewInt(0), hi)
		}
	}
	reg("U64", u(64))
	reg("U32", u(32))
	reg("U8", u(8))
	reg("I64", func(in *Interp, fn *ssa.Function, a []Value) Value {
		return in.freshVar(str(a[0]), sym.SInt, new(big.Int).Neg(pow2(63)), new(big.Int).Sub(pow2(63), big.NewInt(1)))
	})
	reg("I32", func(in *Interp, fn *ssa.Function, a []Value) Value {
		return in.freshVar(str(a[0]), sym.SInt, new(big.Int).Neg(pow2(31)), new(big.Int).Sub(pow2(31), big.NewInt(1)))
	})
	// Range(tag, lo, hi) int64 in [lo,hi]
	reg("Range", func(in *Interp, fn *ssa.Function, a []Value) Value {
		lo := a[1].(*sym.Term)
		hi := a[2].(*sym.Term)
		if !lo.IsConst() || !hi.IsConst() {
			in.fail("unsupported", "Range with symbolic bounds")
		}
		return in.freshVar(str(a[0]), sym.SInt, lo.I, hi.I)
	})
	reg("URange", func(in *Interp, fn *ssa.Function, a []Value) Value {
		lo := a[1].(*sym.Term)
		hi := a[2].(*sym.Term)
		if !lo.IsConst() || !hi.IsConst() {
			in.fail("unsupported", "URange with symbolic bounds")
		}
		return in.freshVar(str(a[0]), sym.SInt, lo.I, hi.I)
	})
	reg("Bool", func(in *Interp, fn *ssa.Function, a []Value) Value {
		return in.freshVar(str(a[0]), sym.SBool, nil, nil)
	})
	reg("Choose", func(in *Interp, fn *ssa.Function, a []Value) Value {
		n := int(in.Concretize(a[1].(*sym.Term)))
		return in.F.Int(int64(in.Choose(str(a[0]), n)))
	})
	reg("Assume", func(in *Interp, fn *ssa.Function, a []Value) Value {
		c := a[0].(*sym.Term)
		in.flushAsserts()
		if c.IsConst() {
			if !c.B {
				in.fail("assume", "")
			}
			return nil
		}
		r := in.S.CheckWith(c)
		in.Res.Queries++
		if r == sym.Unsat {
			in.fail("assume", "")
		}
		if r == sym.Unknown {
			in.Res.Unknowns++
		}
		in.assertPC(c)
		return nil
	})
	reg("Assert", func(in *Interp, fn *ssa.Function, a []Value) Value {
		id := str(a[0])
		c := a[1].(*sym.Term)
		if !in.Ex.assertEnabled(id) {
			return nil
		}
		in.Res.Asserts++
		if c.IsConst() {
			if !c.B {
				in.flushAsserts()
				in.constViolated = true
				in.reportViolation(id, "", nil)
			}
			return nil
		}
		// batched: consecutive assertions with no change of the path condition in
		// between are decided by one query (and individually only if that one is sat)
		in.pending = append(in.pending, pendingAssert{id, c})
		in.asserted = append(in.asserted, c)
		return nil
	})
	reg("Cover", func(in *Interp, fn *ssa.Function, a []Value) Value {
		in.Res.Covers = append(in.Res.Covers, str(a[0]))
		return nil
	})
	reg("Symbolic", func(in *Interp, fn *ssa.Function, a []Value) Value { return in.F.True })
	reg("Param", func(in *Interp, fn *ssa.Function, a []Value) Value {
		d := in.Concretize(a[1].(*sym.Term))
		return in.F.Int(int64(in.Ex.paramDefault(str(a[0]), int(d))))
	})
	reg("Permute", func(in *Interp, fn *ssa.Function, a []Value) Value {
		c := a[0].(*sym.Term)
		in.permute = c.IsConst() && c.B
		return nil
	})
	reg("Observe", func(in *Interp, fn *ssa.Function, a []Value) Value {
		iv := a[1].(IfaceVal)
		in.observed = append(in.observed, Observation{Tag: str(a[0]), Term: iv.V})
		return nil
	})
	reg("ObserveU64", func(in *Interp, fn *ssa.Function, a []Value) Value {
		in.observed = append(in.observed, Observation{Tag: str(a[0]), Term: a[1]})
		return nil
	})
	reg("ObserveI64", func(in *Interp, fn *ssa.Function, a []Value) Value {
		in.observed = append(in.observed, Observation{Tag: str(a[0]), Term: a[1]})
		return nil
	})
	reg("ObserveStr", func(in *Interp, fn *ssa.Function, a []Value) Value {
		in.observed = append(in.observed, Observation{Tag: str(a[0]), Term: a[1]})
		return nil
	})
	reg("Stub", func(in *Interp, fn *ssa.Function, a []Value) Value {
		iv := a[1].(IfaceVal)
		in.stubs[str(a[0])] = iv.V
		return nil
	})
	reg("Yield", func(in *Interp, fn *ssa.Function, a []Value) Value {
		in.gYield()
		return nil
	})
	reg("Mode", func(in *Interp, fn *ssa.Function, a []Value) Value {
		in.mode[str(a[0])] = int(in.Concretize(a[1].(*sym.Term)))
		return nil
	})
	reg("AndB", func(in *Interp, fn *ssa.Function, a []Value) Value {
		return in.F.And(a[0].(*sym.Term), a[1].(*sym.Term))
	})
	reg("OrB", func(in *Interp, fn *ssa.Function, a []Value) Value {
		return in.F.Or(a[0].(*sym.Term), a[1].(*sym.Term))
	})
	reg("NotB", func(in *Interp, fn *ssa.Function, a []Value) Value { return in.F.Not(a[0].(*sym.Term)) })
	ite := func(in *Interp, fn *ssa.Function, a []Value) Value {
		return in.F.Ite(a[0].(*sym.Term), a[1].(*sym.Term), a[2].(*sym.Term))
	}
	reg("IteU64", ite)
	reg("IteI64", ite)
	reg("Monitor", func(in *Interp, fn *ssa.Function, a []Value) Value {
		return in.F.Int(int64(in.monitor[str(a[0])]))
	})
	reg("Exit", func(in *Interp, fn *ssa.Function, a []Value) Value {
		in.fail("exit", "")
		return nil
	})
	// the T type: vrt.T has methods Logf etc. in native mode; in symbolic mode all are no-ops
	ex.pkgIntercepts[vrtPath] = func(in *Interp, fn *ssa.Function, a []Value) Value {
		if strings.HasSuffix(fn.Name(), "init") {
			return nil
		}
		in.fail("unsupported", "vrt function without symbolic model: "+fn.String())
		return nil
	}
}

var _ = types.Typ

type pendingAssert struct {
	id string
	c  *sym.Term
}

// checkAssert decides one assertion under the current path condition. The model of a
// violation is taken from the very query that answered sat.
func (in *Interp) checkAssert(id string, c *sym.Term) {
	neg := in.F.Not(c)
	in.S.Push()
	in.S.Assert(neg)
	r := in.S.Check()
	var m map[string]*big.Int
	if r == sym.Sat {
		m = in.S.Model(in.F.Vars)
	}
	in.S.Pop()
	in.Res.Queries++
	if r == sym.Unknown {
		// once more with three times the budget (a loaded machine), then the other solvers
		in.S.SetTimeout(3 * in.Ex.TimeoutMs)
		in.S.Push()
		in.S.Assert(neg)
		r = in.S.Check()
		if r == sym.Sat {
			m = in.S.Model(in.F.Vars)
		}
		in.S.Pop()
		in.S.SetTimeout(in.Ex.TimeoutMs)
		in.Res.Queries++
	}
	if r == sym.Unknown {
		r, m = in.fallbackCheck(neg)
	}
	switch r {
	case sym.Unsat:
		return
	case sym.Unknown:
		in.Res.Unknowns++
		in.fail("unknown", "solver unknown on assertion "+id)
	}
	in.recordViolation(id, "", m)
}

// flushAsserts decides all pending assertions; must run before the path condition changes.
func (in *Interp) flushAsserts() {
	if len(in.pending) == 0 {
		return
	}
	ps := in.pending
	in.pending = nil
	if len(ps) == 1 {
		in.checkAssert(ps[0].id, ps[0].c)
		return
	}
	negs := make([]*sym.Term, len(ps))
	for i, p := range ps {
		negs[i] = in.F.Not(p.c)
	}
	any := in.F.Or(negs...)
	r := in.S.CheckWith(any)
	in.Res.Queries++
	if r == sym.Unsat {
		return
	}
	for _, p := range ps {
		in.checkAssert(p.id, p.c)
	}
}

// fallbackCheck re-submits the path condition plus extra to the other solvers.
func (in *Interp) fallbackCheck(extra *sym.Term) (sym.Result, map[string]*big.Int) {
	for _, name := range []string{"cvc5", "z3"} {
		if name == in.Ex.SolverName {
			continue
		}
		s, err := sym.NewSolver(name, in.Ex.TimeoutMs)
		if err != nil {
			continue
		}
		for _, t := range in.pc {
			s.Assert(t)
		}
		s.Assert(extra)
		r := s.Check()
		var m map[string]*big.Int
		if r == sym.Sat {
			m = s.Model(in.F.Vars)
		}
		s.Close()
		in.Res.Queries++
		in.Res.Fallbacks++
		if r != sym.Unknown {
			return r, m
		}
	}
	return sym.Unknown, nil
}
