package interp

import (
	"go/token"
	"go/types"

	"gosym/sym"
)

func registerSQL(ex *Explorer) {}

type Store struct{}

func (in *Interp) fpBinop(op token.Token, x, y FloatVal) Value {
	in.fail("unsupported", "fp mode")
	return nil
}
func (in *Interp) intToFP(x *sym.Term, from types.Type) Value {
	in.fail("unsupported", "fp mode")
	return nil
}
func (in *Interp) blobToString(s SliceVal) Value {
	in.fail("unsupported", "blob to string")
	return nil
}
func (in *Interp) materializeBlob(s *SliceVal) { in.fail("unsupported", "blob bytes accessed") }
func (in *Interp) blobLen(s SliceVal) int {
	in.fail("unsupported", "blob len")
	return 0
}
