package interp

import (
	"encoding/hex"
	"fmt"
	"go/types"
	"math"
	"math/big"
	"strconv"
	"strings"

	"gosym/sym"

	"golang.org/x/tools/go/ssa"
)

func (in *Interp) findType(pkgPath, name string) types.Type {
	p := in.Prog.ImportedPackage(pkgPath)
	if p == nil {
		in.fail("unsupported", "package not loaded: "+pkgPath)
	}
	m := p.Members[name]
	t, ok := m.(*ssa.Type)
	if !ok {
		in.fail("unsupported", "type not found: "+pkgPath+"."+name)
	}
	return t.Type()
}

// newError builds an error value (*errors.errorString) with the given message.
func (in *Interp) newError(msg string) IfaceVal {
	et := in.findType("errors", "errorString")
	c := in.newCell(et, &StructVal{F: []Value{msg}})
	return IfaceVal{T: types.NewPointer(et), V: c}
}

func (in *Interp) sentinelError(name string) IfaceVal {
	if e, ok := in.sentinels[name]; ok {
		return e
	}
	e := in.newError(name)
	in.sentinels[name] = e
	return e
}

func (in *Interp) errorsIs(a, b Value) bool {
	x, ok1 := a.(IfaceVal)
	y, ok2 := b.(IfaceVal)
	if !ok1 || !ok2 {
		return false
	}
	for depth := 0; depth < 16 && x.T != nil; depth++ {
		if x.V == y.V {
			return true
		}
		c, ok := x.V.(*Cell)
		if !ok || c == nil {
			return false
		}
		w, ok := c.Ext.(IfaceVal)
		if !ok {
			return false
		}
		x = w
	}
	return false
}

// wrapVerbIndex: index of the operand consumed by the first %w verb (-1 if none).
func wrapVerbIndex(format string) int {
	idx := 0
	for i := 0; i < len(format); i++ {
		if format[i] != '%' {
			continue
		}
		i++
		for i < len(format) && strings.IndexByte("+-# 0123456789.", format[i]) >= 0 {
			i++
		}
		if i >= len(format) {
			break
		}
		if format[i] == '%' {
			continue
		}
		if format[i] == 'w' {
			return idx
		}
		idx++
	}
	return -1
}

// bigOf returns the Int term of a *big.Int pointer.
func (in *Interp) bigOf(v Value) *sym.Term {
	c, ok := v.(*Cell)
	if !ok || c == nil {
		panic(goPanic{msg: "runtime error: invalid memory address or nil pointer dereference (big.Int)"})
	}
	if c.Big == nil {
		return in.F.Int(0)
	}
	return c.Big
}

func (in *Interp) newBig(t *sym.Term) *Cell {
	bt := in.findType("math/big", "Int")
	c := in.newCell(bt, in.zero(bt))
	c.Big = t
	return c
}

var auxSeq int

// euclidDiv returns q with n = q*d + r, 0 <= r < d, for d > 0 (caller guarantees d != 0).
func (in *Interp) floorDiv(n, d *sym.Term) *sym.Term {
	f := in.F
	if n.IsConst() && d.IsConst() {
		return f.Div(n, d)
	}
	// (x * d) / d = x
	if n.Op == "*" && len(n.Args) == 2 {
		if n.Args[1] == d && d.Lo != nil && d.Lo.Sign() > 0 {
			return n.Args[0]
		}
		if n.Args[0] == d && d.Lo != nil && d.Lo.Sign() > 0 {
			return n.Args[1]
		}
	}
	ck := [2]int{n.ID(), d.ID()}
	if q, ok := in.divCache[ck]; ok {
		return q // the same division on this path: same quotient
	}
	defer func() {
		if in.divCache == nil {
			in.divCache = map[[2]int]*sym.Term{}
		}
		in.divCache[ck] = in.lastQ
	}()
	in.varSeq["$q"]++
	k := in.varSeq["$q"]
	var qlo, qhi *big.Int
	if n.Lo != nil && n.Lo.Sign() >= 0 && d.Lo != nil && d.Lo.Sign() >= 0 {
		qlo, qhi = big.NewInt(0), n.Hi
	}
	q := f.Var(fmt.Sprintf("|$q%d|", k), sym.SInt, qlo, qhi)
	r := f.Var(fmt.Sprintf("|$r%d|", k), sym.SInt, big.NewInt(0), nil)
	in.assertPC(f.Eq(n, f.Add(f.Mul(q, d), r)))
	in.assertPC(f.Lt(r, d))
	in.lastQ = q
	return q
}

func registerNatives(ex *Explorer) {
	I := ex.intercepts

	// ---------- math/big ----------
	I["math/big.NewInt"] = func(in *Interp, fn *ssa.Function, a []Value) Value { return in.newBig(a[0].(*sym.Term)) }
	set := func(in *Interp, fn *ssa.Function, a []Value) Value {
		a[0].(*Cell).Big = a[1].(*sym.Term)
		return a[0]
	}
	I["(*math/big.Int).SetUint64"] = set
	I["(*math/big.Int).SetInt64"] = set
	I["(*math/big.Int).Set"] = func(in *Interp, fn *ssa.Function, a []Value) Value {
		a[0].(*Cell).Big = in.bigOf(a[1])
		return a[0]
	}
	bin := func(op func(in *Interp, x, y *sym.Term) *sym.Term) Intercept {
		return func(in *Interp, fn *ssa.Function, a []Value) Value {
			x, y := in.bigOf(a[1]), in.bigOf(a[2])
			a[0].(*Cell).Big = op(in, x, y)
			return a[0]
		}
	}
	I["(*math/big.Int).Add"] = bin(func(in *Interp, x, y *sym.Term) *sym.Term { return in.F.Add(x, y) })
	I["(*math/big.Int).Sub"] = bin(func(in *Interp, x, y *sym.Term) *sym.Term { return in.F.Sub(x, y) })
	I["(*math/big.Int).Mul"] = bin(func(in *Interp, x, y *sym.Term) *sym.Term { return in.F.Mul(x, y) })
	div := func(euclid bool) func(in *Interp, x, y *sym.Term) *sym.Term {
		return func(in *Interp, x, y *sym.Term) *sym.Term {
			f := in.F
			if in.Branch(f.Eq(y, f.Int(0))) {
				panic(goPanic{msg: "division by zero"})
			}
			if x.IsConst() && y.IsConst() {
				if euclid {
					return f.BigInt(new(big.Int).Div(x.I, y.I))
				}
				return f.BigInt(new(big.Int).Quo(x.I, y.I))
			}
			xneg := in.Branch(f.Lt(x, f.Int(0)))
			yneg := in.Branch(f.Lt(y, f.Int(0)))
			if !xneg && !yneg {
				return in.floorDiv(x, y)
			}
			ax, ay := x, y
			if xneg {
				ax = f.Neg(x)
			}
			if yneg {
				ay = f.Neg(y)
			}
			if !euclid {
				q := in.floorDiv(ax, ay)
				if xneg != yneg {
					return f.Neg(q)
				}
				return q
			}
			in.fail("unsupported", "big.Int.Div with negative operands")
			return nil
		}
	}
	I["(*math/big.Int).Div"] = bin(div(true))
	I["(*math/big.Int).Quo"] = bin(div(false))
	I["(*math/big.Int).Lsh"] = func(in *Interp, fn *ssa.Function, a []Value) Value {
		n := in.Concretize(a[2].(*sym.Term))
		a[0].(*Cell).Big = in.F.Mul(in.bigOf(a[1]), in.F.BigInt(pow2(uint(n))))
		return a[0]
	}
	I["(*math/big.Int).Neg"] = func(in *Interp, fn *ssa.Function, a []Value) Value {
		a[0].(*Cell).Big = in.F.Neg(in.bigOf(a[1]))
		return a[0]
	}
	ex.pkgIntercepts["math/big"] = func(in *Interp, fn *ssa.Function, a []Value) Value {
		in.fail("unsupported", "math/big function without model: "+fn.String())
		return nil
	}
	I["(*math/big.Int).IsInt64"] = func(in *Interp, fn *ssa.Function, a []Value) Value {
		x := in.bigOf(a[0])
		return in.F.And(in.F.Ge(x, in.F.BigInt(new(big.Int).Neg(pow2(63)))), in.F.Lt(x, in.F.BigInt(pow2(63))))
	}
	I["(*math/big.Int).IsUint64"] = func(in *Interp, fn *ssa.Function, a []Value) Value {
		x := in.bigOf(a[0])
		return in.F.And(in.F.Ge(x, in.F.Int(0)), in.F.Lt(x, in.F.BigInt(pow2(64))))
	}
	I["(*math/big.Int).Int64"] = func(in *Interp, fn *ssa.Function, a []Value) Value {
		return in.wrap(in.bigOf(a[0]), types.Typ[types.Int64])
	}
	I["(*math/big.Int).Uint64"] = func(in *Interp, fn *ssa.Function, a []Value) Value {
		return in.wrap(in.bigOf(a[0]), types.Typ[types.Uint64])
	}
	I["(*math/big.Int).Sign"] = func(in *Interp, fn *ssa.Function, a []Value) Value {
		x := in.bigOf(a[0])
		f := in.F
		return f.Ite(f.Lt(x, f.Int(0)), f.Int(-1), f.Ite(f.Gt(x, f.Int(0)), f.Int(1), f.Int(0)))
	}
	I["(*math/big.Int).Cmp"] = func(in *Interp, fn *ssa.Function, a []Value) Value {
		x, y := in.bigOf(a[0]), in.bigOf(a[1])
		f := in.F
		return f.Ite(f.Lt(x, y), f.Int(-1), f.Ite(f.Gt(x, y), f.Int(1), f.Int(0)))
	}
	I["(*math/big.Int).String"] = func(in *Interp, fn *ssa.Function, a []Value) Value {
		x := in.bigOf(a[0])
		if x.IsConst() {
			return x.I.String()
		}
		return "<big>"
	}

	// ---------- fmt ----------
	I["fmt.Sprintf"] = func(in *Interp, fn *ssa.Function, a []Value) Value {
		return in.sprintf(str(a[0]), a[1].(SliceVal), true)
	}
	I["fmt.Errorf"] = func(in *Interp, fn *ssa.Function, a []Value) Value {
		format := str(a[0])
		args := a[1].(SliceVal)
		e := in.newError(in.sprintf(strings.ReplaceAll(format, "%w", "%v"), args, false))
		// %w: remember the wrapped error so that errors.Is / errors.Unwrap see the chain
		if wi := wrapVerbIndex(format); wi >= 0 && wi < args.Len {
			if w, ok := in.sget(args, wi).(IfaceVal); ok && w.T != nil {
				e.V.(*Cell).Ext = w
			}
		}
		return e
	}
	I["errors.Unwrap"] = func(in *Interp, fn *ssa.Function, a []Value) Value {
		if x, ok := a[0].(IfaceVal); ok {
			if c, ok := x.V.(*Cell); ok && c != nil {
				if w, ok := c.Ext.(IfaceVal); ok {
					return w
				}
			}
		}
		return IfaceVal{}
	}
	I["fmt.Sprint"] = func(in *Interp, fn *ssa.Function, a []Value) Value {
		args := a[0].(SliceVal)
		var parts []string
		for i := 0; i < args.Len; i++ {
			parts = append(parts, in.sprintf("%v", SliceVal{Arr: args.Arr, Off: args.Off + i, Len: 1, Cap: 1}, false))
		}
		return strings.Join(parts, "")
	}
	nop := func(in *Interp, fn *ssa.Function, a []Value) Value { return in.zeroResults(fn) }
	for _, n := range []string{"fmt.Println", "fmt.Printf", "fmt.Print", "fmt.Fprintf", "fmt.Fprintln", "fmt.Fprint"} {
		I[n] = nop
	}

	// ---------- errors ----------
	I["errors.Is"] = func(in *Interp, fn *ssa.Function, a []Value) Value {
		return in.F.Bool(in.errorsIs(a[0], a[1]))
	}

	// ---------- logrus ----------
	ex.pkgIntercepts["github.com/sirupsen/logrus"] = func(in *Interp, fn *ssa.Function, a []Value) Value {
		n := fn.Name()
		if strings.HasPrefix(n, "Fatal") || strings.HasPrefix(n, "Panic") {
			in.fail("fatal", "logrus."+n)
		}
		return in.zeroResults(fn)
	}

	// ---------- math/bits ----------
	// Len64 / Len32 / Len: the minimum number of bits representing x, as a chain of 64 threshold
	// comparisons over the (mathematical, range-checked) unsigned value; the library's table lookup
	// with a symbolic index is not interpreted
	bitsLen := func(width int) func(in *Interp, fn *ssa.Function, a []Value) Value {
		return func(in *Interp, fn *ssa.Function, a []Value) Value {
			x, ok := a[0].(*sym.Term)
			if !ok {
				in.fail("unsupported", "math/bits.Len: argument is not an integer term")
			}
			r := in.F.Int(int64(width))
			for n := width - 1; n >= 0; n-- {
				r = in.F.Ite(in.F.Lt(x, in.F.BigInt(new(big.Int).Lsh(big.NewInt(1), uint(n)))), in.F.Int(int64(n)), r)
			}
			return r
		}
	}
	I["math/bits.Len64"] = bitsLen(64)
	I["math/bits.Len"] = bitsLen(64)
	I["math/bits.Len32"] = bitsLen(32)

	// ---------- time ----------
	I["time.Now"] = func(in *Interp, fn *ssa.Function, a []Value) Value {
		in.timeSeq++
		sec := in.F.Var(fmt.Sprintf("|$now%d|", in.timeSeq), sym.SInt, big.NewInt(1500000000), big.NewInt(4000000000))
		return in.timeFromUnix(sec)
	}
	I["time.Since"] = func(in *Interp, fn *ssa.Function, a []Value) Value { return in.F.Int(0) }
	I["time.Sleep"] = nop
	I["time.Unix"] = func(in *Interp, fn *ssa.Function, a []Value) Value {
		return in.timeFromUnix(a[0].(*sym.Term))
	}
	I["(time.Time).Unix"] = func(in *Interp, fn *ssa.Function, a []Value) Value {
		return in.timeUnix(a[0])
	}
	I["(time.Time).String"] = func(in *Interp, fn *ssa.Function, a []Value) Value { return "<time>" }
	I["(time.Duration).String"] = func(in *Interp, fn *ssa.Function, a []Value) Value { return "<duration>" }

	// ---------- strings / strconv (concrete arguments) ----------
	I["strings.ToLower"] = func(in *Interp, fn *ssa.Function, a []Value) Value { return strings.ToLower(str(a[0])) }
	I["strings.ToUpper"] = func(in *Interp, fn *ssa.Function, a []Value) Value { return strings.ToUpper(str(a[0])) }
	I["strings.HasPrefix"] = func(in *Interp, fn *ssa.Function, a []Value) Value {
		return in.F.Bool(strings.HasPrefix(str(a[0]), str(a[1])))
	}
	I["strings.HasSuffix"] = func(in *Interp, fn *ssa.Function, a []Value) Value {
		return in.F.Bool(strings.HasSuffix(str(a[0]), str(a[1])))
	}
	I["strings.TrimPrefix"] = func(in *Interp, fn *ssa.Function, a []Value) Value { return strings.TrimPrefix(str(a[0]), str(a[1])) }
	I["strings.TrimRight"] = func(in *Interp, fn *ssa.Function, a []Value) Value { return strings.TrimRight(str(a[0]), str(a[1])) }
	I["strings.Trim"] = func(in *Interp, fn *ssa.Function, a []Value) Value { return strings.Trim(str(a[0]), str(a[1])) }
	I["strings.Contains"] = func(in *Interp, fn *ssa.Function, a []Value) Value {
		return in.F.Bool(strings.Contains(str(a[0]), str(a[1])))
	}
	I["strings.Join"] = func(in *Interp, fn *ssa.Function, a []Value) Value {
		s := a[0].(SliceVal)
		parts := make([]string, s.Len)
		for i := range parts {
			parts[i] = str(in.sget(s, i))
		}
		return strings.Join(parts, str(a[1]))
	}
	I["strings.Split"] = func(in *Interp, fn *ssa.Function, a []Value) Value {
		if ss, ok := a[0].(*SymStr); ok {
			return in.symSplit(ss, str(a[1]), fn)
		}
		parts := strings.Split(str(a[0]), str(a[1]))
		return in.stringSlice(parts)
	}
	I["strings.Repeat"] = func(in *Interp, fn *ssa.Function, a []Value) Value {
		return strings.Repeat(str(a[0]), int(in.Concretize(a[1].(*sym.Term))))
	}
	I["(*strings.Builder).WriteString"] = func(in *Interp, fn *ssa.Function, a []Value) Value {
		c := a[0].(*Cell)
		s, _ := c.Ext.(string)
		c.Ext = s + str(a[1])
		return TupleVal{in.F.Int(int64(len(str(a[1])))), IfaceVal{}}
	}
	I["(*strings.Builder).String"] = func(in *Interp, fn *ssa.Function, a []Value) Value {
		s, _ := a[0].(*Cell).Ext.(string)
		return s
	}
	I["strconv.Itoa"] = func(in *Interp, fn *ssa.Function, a []Value) Value {
		return strconv.Itoa(int(in.Concretize(a[0].(*sym.Term))))
	}
	I["strconv.ParseInt"] = func(in *Interp, fn *ssa.Function, a []Value) Value {
		if _, ok := a[0].(*SymStr); ok {
			return in.callFunction(fn, a, nil)
		}
		v, err := strconv.ParseInt(str(a[0]), int(in.Concretize(a[1].(*sym.Term))), int(in.Concretize(a[2].(*sym.Term))))
		if err != nil {
			return TupleVal{in.F.Int(v), in.newError(err.Error())}
		}
		return TupleVal{in.F.Int(v), IfaceVal{}}
	}
	I["strconv.Atoi"] = func(in *Interp, fn *ssa.Function, a []Value) Value {
		if _, ok := a[0].(*SymStr); ok {
			return in.callFunction(fn, a, nil)
		}
		v, err := strconv.Atoi(str(a[0]))
		if err != nil {
			return TupleVal{in.F.Int(int64(v)), in.newError(err.Error())}
		}
		return TupleVal{in.F.Int(int64(v)), IfaceVal{}}
	}
	I["math.Pow10"] = func(in *Interp, fn *ssa.Function, a []Value) Value {
		n := int(in.Concretize(a[0].(*sym.Term)))
		return FloatVal{F: math.Pow10(n), Known: true}
	}

	I["encoding/hex.DecodeString"] = func(in *Interp, fn *ssa.Function, a []Value) Value {
		b, err := hex.DecodeString(str(a[0]))
		if err != nil {
			return TupleVal{in.bytesToSlice(b, types.Typ[types.Uint8]), in.newError(err.Error())}
		}
		return TupleVal{in.bytesToSlice(b, types.Typ[types.Uint8]), IfaceVal{}}
	}
	I["encoding/hex.EncodeToString"] = func(in *Interp, fn *ssa.Function, a []Value) Value {
		sv := a[0].(SliceVal)
		if sv.Arr == nil {
			return ""
		}
		b, ok := in.sliceBytes(sv)
		if !ok {
			in.fail("unsupported", "hex.EncodeToString of symbolic bytes")
		}
		return hex.EncodeToString(b)
	}

	I["bytes.Compare"] = func(in *Interp, fn *ssa.Function, a []Value) Value {
		x, y := a[0].(SliceVal), a[1].(SliceVal)
		n := x.Len
		if y.Len < n {
			n = y.Len
		}
		for i := 0; i < n; i++ {
			bx, by := in.sget(x, i).(*sym.Term), in.sget(y, i).(*sym.Term)
			if in.Branch(in.F.Lt(bx, by)) {
				return in.F.Int(-1)
			}
			if in.Branch(in.F.Gt(bx, by)) {
				return in.F.Int(1)
			}
		}
		switch {
		case x.Len < y.Len:
			return in.F.Int(-1)
		case x.Len > y.Len:
			return in.F.Int(1)
		}
		return in.F.Int(0)
	}
	I["bytes.Equal"] = func(in *Interp, fn *ssa.Function, a []Value) Value {
		x, y := a[0].(SliceVal), a[1].(SliceVal)
		if x.Len != y.Len {
			return in.F.False
		}
		var cs []*sym.Term
		for i := 0; i < x.Len; i++ {
			cs = append(cs, in.F.Eq(in.sget(x, i).(*sym.Term), in.sget(y, i).(*sym.Term)))
		}
		return in.F.And(cs...)
	}

	// ---------- sort ----------
	I["sort.Slice"] = func(in *Interp, fn *ssa.Function, a []Value) Value {
		in.sortSlice(a[0].(IfaceVal).V.(SliceVal), a[1], false)
		return nil
	}
	I["sort.SliceStable"] = func(in *Interp, fn *ssa.Function, a []Value) Value {
		in.sortSlice(a[0].(IfaceVal).V.(SliceVal), a[1], true)
		return nil
	}
	I["sort.Strings"] = func(in *Interp, fn *ssa.Function, a []Value) Value {
		s := a[0].(SliceVal)
		// insertion sort on concrete strings
		for i := 1; i < s.Len; i++ {
			for j := i; j > 0; j-- {
				x := str(in.sget(s, j-1))
				y := str(in.sget(s, j))
				if y < x {
					in.scell(s, j-1).V, in.scell(s, j).V = y, x
				} else {
					break
				}
			}
		}
		return nil
	}

}

func (in *Interp) stringSlice(parts []string) SliceVal {
	vals := make([]Value, len(parts))
	for i, p := range parts {
		vals[i] = p
	}
	return in.sliceFrom(types.Typ[types.String], vals)
}

// symSplit splits a symbolic string on a one-byte separator, deciding for each
// byte whether it is the separator (forking when undetermined).
func (in *Interp) symSplit(s *SymStr, sep string, fn *ssa.Function) Value {
	if len(sep) != 1 {
		in.fail("unsupported", "symbolic Split with multi-byte separator")
	}
	var parts []Value
	cur := &SymStr{}
	for _, b := range s.B {
		if in.Branch(in.F.Eq(b, in.F.Int(int64(sep[0])))) {
			parts = append(parts, in.normStr(cur))
			cur = &SymStr{}
		} else {
			cur.B = append(cur.B, b)
		}
	}
	parts = append(parts, in.normStr(cur))
	return in.sliceFrom(types.Typ[types.String], parts)
}

func (in *Interp) normStr(s *SymStr) Value {
	b := make([]byte, len(s.B))
	for i, t := range s.B {
		if !t.IsConst() {
			return s
		}
		b[i] = byte(t.I.Int64())
	}
	return string(b)
}

const unixToInternal int64 = (1969*365 + 1969/4 - 1969/100 + 1969/400) * 86400

func (in *Interp) timeFromUnix(sec *sym.Term) Value {
	f := in.F
	return &StructVal{F: []Value{f.Int(0), f.Add(sec, f.Int(unixToInternal)), (*Cell)(nil)}}
}

func (in *Interp) timeUnix(v Value) *sym.Term {
	sv := v.(*StructVal)
	return in.F.Sub(sv.F[1].(*sym.Term), in.F.Int(unixToInternal))
}

// sortSlice sorts with the real less closure. Stable insertion sort; in permute
// mode an unstable sort is modelled by first applying an arbitrary permutation.
func (in *Interp) sortSlice(s SliceVal, less Value, stable bool) {
	n := s.Len
	if n < 2 {
		return
	}
	in.ensureAgg(s.Arr)
	cells := s.Arr.Elems[s.Off : s.Off+n]
	swap := func(i, j int) {
		vi, vj := in.load(cells[i]), in.load(cells[j])
		in.storeInto(cells[i], cells[i].T, vj)
		in.storeInto(cells[j], cells[j].T, vi)
	}
	if in.permute && !stable {
		for i := 0; i < n-1; i++ {
			j := i + in.Choose("", n-i)
			if i != j {
				swap(i, j)
			}
		}
		in.Res.Permuted++
	}
	for i := 1; i < n; i++ {
		for j := i; j > 0; j-- {
			r := in.callValue(less, []Value{in.F.Int(int64(j)), in.F.Int(int64(j - 1))}).(*sym.Term)
			if in.Branch(r) {
				swap(j, j-1)
			} else {
				break
			}
		}
	}
}

// sprintf formats natively. Symbolic integers are concretized when strict,
// otherwise replaced by a placeholder (error messages only).
func (in *Interp) sprintf(format string, args SliceVal, strict bool) string {
	// %T prints the dynamic type and must not run String()/Error() of its operand: rewrite it to
	// %s with the type's name
	var out []byte
	typeArg := map[int]bool{}
	argi := 0
	for i := 0; i < len(format); i++ {
		c := format[i]
		out = append(out, c)
		if c != '%' {
			continue
		}
		j := i + 1
		for j < len(format) && strings.IndexByte("+-# 0123456789.*", format[j]) >= 0 {
			if format[j] == '*' {
				argi++
			}
			out = append(out, format[j])
			j++
		}
		if j >= len(format) {
			break
		}
		switch format[j] {
		case '%':
			out = append(out, '%')
		case 'T':
			out = append(out, 's')
			typeArg[argi] = true
			argi++
		default:
			out = append(out, format[j])
			argi++
		}
		i = j
	}
	nat := make([]interface{}, args.Len)
	for i := 0; i < args.Len; i++ {
		if typeArg[i] {
			if iv, ok := in.sget(args, i).(IfaceVal); ok && iv.T != nil {
				nat[i] = types.TypeString(iv.T, func(p *types.Package) string { return p.Name() })
			} else {
				nat[i] = "<nil>"
			}
			continue
		}
		nat[i] = in.toNative(in.sget(args, i), strict)
	}
	return fmt.Sprintf(string(out), nat...)
}

type nativeStringer struct{ s string }

func (n nativeStringer) String() string { return n.s }

type nativeError struct{ s string }

func (n nativeError) Error() string { return n.s }

func (in *Interp) toNative(v Value, strict bool) interface{} {
	iv, ok := v.(IfaceVal)
	if !ok {
		return fmt.Sprintf("<%T>", v)
	}
	if iv.T == nil {
		return nil
	}
	// Stringer / error first (as fmt does for %v %s)
	if _, isBasic := iv.T.(*types.Basic); !isBasic {
		ms := in.Prog.MethodSets.MethodSet(iv.T)
		for _, name := range []string{"Error", "String"} {
			if sel := ms.Lookup(nil, name); sel != nil {
				sig := sel.Type().(*types.Signature)
				if sig.Params().Len() == 0 && sig.Results().Len() == 1 && isStringType(sig.Results().At(0).Type()) {
					if c, isPtr := iv.V.(*Cell); isPtr && c == nil {
						return "<nil>"
					}
					fn := in.Prog.MethodValue(sel)
					if fn != nil {
						var out Value
						func() {
							defer func() {
								if r := recover(); r != nil {
									if _, isGP := r.(goPanic); isGP {
										out = "<panic>"
										return
									}
									panic(r)
								}
							}()
							out = in.call(fn, []Value{iv.V}, nil)
						}()
						if s, ok := out.(string); ok {
							if name == "Error" {
								return nativeError{s}
							}
							return nativeStringer{s}
						}
					}
				}
			}
		}
	}
	switch x := iv.V.(type) {
	case *sym.Term:
		if x.Sort == sym.SBool {
			if x.IsConst() {
				return x.B
			}
			if strict {
				return in.Branch(x)
			}
			return "<bool>"
		}
		var n int64
		if x.IsConst() {
			if !x.I.IsInt64() {
				return new(big.Int).Set(x.I)
			}
			n = x.I.Int64()
		} else if strict {
			n = in.Concretize(x)
		} else {
			return "<int>"
		}
		if b, ok := iv.T.Underlying().(*types.Basic); ok {
			switch b.Kind() {
			case types.Uint8:
				return uint8(n)
			case types.Uint16:
				return uint16(n)
			case types.Uint32:
				return uint32(n)
			case types.Uint64, types.Uint, types.Uintptr:
				if x.IsConst() {
					return x.I.Uint64()
				}
				return uint64(n)
			case types.Int8:
				return int8(n)
			case types.Int16:
				return int16(n)
			case types.Int32:
				return int32(n)
			case types.Int:
				return int(n)
			}
		}
		return n
	case string:
		return x
	case *SymStr:
		return "<symstr>"
	case FloatVal:
		return x.F
	case SliceVal:
		if b, ok := in.sliceBytes(x); ok && x.Arr != nil {
			if sl, isSl := iv.T.Underlying().(*types.Slice); isSl {
				if eb, isB := sl.Elem().Underlying().(*types.Basic); isB && eb.Kind() == types.Uint8 {
					return b
				}
			}
		}
		return "<slice>"
	case *ArrayVal:
		// byte arrays
		bs := make([]byte, len(x.E))
		for i, e := range x.E {
			t, ok := e.(*sym.Term)
			if !ok || !t.IsConst() {
				return "<array>"
			}
			bs[i] = byte(t.I.Int64())
		}
		return bs
	case IfaceVal:
		return in.toNative(x, strict)
	case *Cell:
		if x == nil {
			return nil
		}
		return "<ptr>"
	}
	return fmt.Sprintf("<%T>", iv.V)
}
