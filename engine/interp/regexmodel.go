package interp

import (
	"fmt"
	"go/types"
	"math/big"
	"regexp"

	"gosym/sym"

	"golang.org/x/tools/go/ssa"
)

// Models of the three fixed regular expressions of cmd/util.go over strings with symbolic
// bytes (per-pattern predicates, keyed by the concrete pattern text). Concrete strings go
// to the real regexp package.

type regexModel struct {
	pattern string
	re      *regexp.Regexp
}

const (
	reAmount   = `^([0-9]+)?(\.[0-9]+)?$`
	reDot      = `\.`
	reFraction = `(0*)([0-9]+)$`
)

func (in *Interp) symIsDigit(b *sym.Term) bool {
	f := in.F
	return in.Branch(f.And(f.Ge(b, f.Int('0')), f.Le(b, f.Int('9'))))
}

func (in *Interp) strBytes(v Value) ([]*sym.Term, bool) {
	switch s := v.(type) {
	case *SymStr:
		return s.B, true
	case string:
		return in.toSymStr(s).B, false
	}
	in.fail("unsupported", fmt.Sprintf("regexp on %T", v))
	return nil, false
}

func registerRegexModel(ex *Explorer) {
	I := ex.intercepts
	I["regexp.MustCompile"] = func(in *Interp, fn *ssa.Function, a []Value) Value {
		p := str(a[0])
		re, err := regexp.Compile(p)
		if err != nil {
			panic(goPanic{msg: "regexp: Compile(" + p + "): " + err.Error()})
		}
		t := in.findType("regexp", "Regexp")
		c := &Cell{T: t, Agg: true, Ext: &regexModel{pattern: p, re: re}}
		return c
	}
	I["(*regexp.Regexp).MatchString"] = func(in *Interp, fn *ssa.Function, a []Value) Value {
		m := a[0].(*Cell).Ext.(*regexModel)
		if s, ok := a[1].(string); ok {
			return in.F.Bool(m.re.MatchString(s))
		}
		if m.pattern != reAmount {
			in.fail("unsupported", "regexp model: MatchString on symbolic string for pattern "+m.pattern)
		}
		bs, _ := in.strBytes(a[1])
		// ^([0-9]+)?(\.[0-9]+)?$
		i := 0
		for i < len(bs) && in.symIsDigit(bs[i]) {
			i++
		}
		if i == len(bs) {
			return in.F.True
		}
		if !in.Branch(in.F.Eq(bs[i], in.F.Int('.'))) {
			return in.F.False
		}
		i++
		if i == len(bs) {
			return in.F.False
		}
		for i < len(bs) {
			if !in.symIsDigit(bs[i]) {
				return in.F.False
			}
			i++
		}
		return in.F.True
	}
	I["(*regexp.Regexp).Split"] = func(in *Interp, fn *ssa.Function, a []Value) Value {
		m := a[0].(*Cell).Ext.(*regexModel)
		n := int(in.Concretize(a[2].(*sym.Term)))
		if s, ok := a[1].(string); ok {
			return in.stringSlice(m.re.Split(s, n))
		}
		if m.pattern != reDot || n != 2 {
			in.fail("unsupported", "regexp model: Split on symbolic string for pattern "+m.pattern)
		}
		bs, _ := in.strBytes(a[1])
		for i, b := range bs {
			if in.Branch(in.F.Eq(b, in.F.Int('.'))) {
				parts := []Value{in.normStr(&SymStr{B: bs[:i]}), in.normStr(&SymStr{B: bs[i+1:]})}
				return in.sliceFrom(types.Typ[types.String], parts)
			}
		}
		if len(bs) == 0 {
			// regexp.Split("" , 2) returns [""]
			return in.sliceFrom(types.Typ[types.String], []Value{""})
		}
		return in.sliceFrom(types.Typ[types.String], []Value{in.normStr(&SymStr{B: bs})})
	}
	I["(*regexp.Regexp).FindStringSubmatch"] = func(in *Interp, fn *ssa.Function, a []Value) Value {
		m := a[0].(*Cell).Ext.(*regexModel)
		if s, ok := a[1].(string); ok {
			r := m.re.FindStringSubmatch(s)
			if r == nil {
				return SliceVal{}
			}
			return in.stringSlice(r)
		}
		if m.pattern != reFraction {
			in.fail("unsupported", "regexp model: FindStringSubmatch on symbolic string for pattern "+m.pattern)
		}
		bs, _ := in.strBytes(a[1])
		// (0*)([0-9]+)$ on a string of digits: leftmost match is at 0; the zeros group is
		// greedy but must leave one digit for the second group
		for _, b := range bs {
			if !in.symIsDigit(b) {
				in.fail("unsupported", "regexp model: fraction with a non-digit (the caller has matched digits before)")
			}
		}
		if len(bs) == 0 {
			return SliceVal{}
		}
		z := 0
		for z < len(bs)-1 && in.Branch(in.F.Eq(bs[z], in.F.Int('0'))) {
			z++
		}
		parts := []Value{in.normStr(&SymStr{B: bs}), in.normStr(&SymStr{B: bs[:z]}), in.normStr(&SymStr{B: bs[z:]})}
		return in.sliceFrom(types.Typ[types.String], parts)
	}
	ident := func(in *Interp, fn *ssa.Function, a []Value) Value { return a[0] }
	I["strconv.cloneString"] = ident
	I["strings.Clone"] = ident
	I["internal/stringslite.Clone"] = ident

	// vrt.Digits(tag, n): a string of n arbitrary decimal digits
	I[vrtPath+".Digits"] = func(in *Interp, fn *ssa.Function, a []Value) Value {
		n := int(in.Concretize(a[1].(*sym.Term)))
		s := &SymStr{}
		for i := 0; i < n; i++ {
			s.B = append(s.B, in.freshVar(str(a[0]), sym.SInt, big.NewInt('0'), big.NewInt('9')))
		}
		if n == 0 {
			return ""
		}
		return s
	}
}
