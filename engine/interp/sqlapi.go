package interp

import (
	"strings"
	"regexp"
	"fmt"
	"os"
	"go/types"
	"strconv"

	"gosym/sym"

	"golang.org/x/tools/go/ssa"
)

// ---- database/sql API model ----

type dbHandle struct{ st *Store }
type txHandle struct {
	st      *Store
	done    bool
	seq     int
	layer   *storeLayer // nil until the first write (SQLite's deferred BEGIN)
	hasRead bool        // has run a SELECT: holds a SHARED lock until it is finished
	conn    *connState  // the pool connection this transaction runs on
}
type connHandle struct {
	st     *Store
	cs     *connState
	closed bool
}
type stmtHandle struct {
	st   *Store
	tx   *txHandle // nil = through DB
	text string
}
type rowsHandle struct {
	rs     *resultSet
	pos    int
	closed bool
	err    Value
	text   string // the query (diagnostics)
	site   string // where it was issued
}
type rowHandle struct {
	rows *rowsHandle
	err  Value
}

// ctxErr: context.Canceled if the (modelled) context has been cancelled, else nil.
func (in *Interp) ctxErr(v Value) Value {
	if iv, ok := v.(IfaceVal); ok {
		if no, ok := iv.V.(*NativeObj); ok {
			if st, ok := no.Data.(*ctxState); ok && st.cancelled {
				return in.globalSentinel("context", "Canceled")
			}
		}
	}
	return nil
}

func (in *Interp) sqlType(name string) types.Type { return in.findType("database/sql", name) }

func (in *Interp) newHandle(typeName string, ext interface{}) *Cell {
	t := in.sqlType(typeName)
	return &Cell{T: t, Agg: true, Ext: ext, Tag: typeName}
}

// dbFault implements the fault oracle: the k-th fallible DB-API call fails.
func (in *Interp) dbFault(what string) (Value, bool) {
	k := in.dbCalls
	in.dbCalls++
	in.monitor["dbcalls"]++
	if in.crashAt >= 0 && k == in.crashAt {
		panic(goPanic{val: IfaceVal{T: types.Typ[types.String], V: "VERIF-CRASH"}})
	}
	if in.faultAt >= 0 && k == in.faultAt {
		in.monitor["fault-injected"]++
		in.observed = append(in.observed, Observation{Tag: "fault-site", Term: what + " @ " + in.repoCaller()})
		return in.sentinelError("verif: injected fault"), true
	}
	return nil, false
}

// repoCaller names the innermost repo function on the interpreted stack.
func (in *Interp) repoCaller() string {
	for fr := in.curFrame; fr != nil; fr = fr.caller {
		if fr.fn.Pkg != nil && in.Ex.shouldInit(fr.fn.Pkg) {
			return fr.fn.String()
		}
	}
	return "?"
}

// bindArgs converts Go arguments to SQL values (driver.DefaultParameterConverter).
func (in *Interp) bindArgs(args SliceVal) ([]Value, Value) {
	f := in.F
	out := make([]Value, args.Len)
	for i := 0; i < args.Len; i++ {
		iv, ok := in.sget(args, i).(IfaceVal)
		if !ok {
			in.fail("unsupported", "sql arg not interface")
		}
		v, err := in.bindOne(iv)
		if err != nil {
			return nil, err
		}
		out[i] = v
	}
	_ = f
	return out, nil
}

func (in *Interp) bindOne(iv IfaceVal) (Value, Value) {
	f := in.F
	if iv.T == nil {
		return nil, nil
	}
	switch x := iv.V.(type) {
	case *sym.Term:
		if x.Sort == sym.SBool {
			return f.Ite(x, f.Int(1), f.Int(0)), nil
		}
		if b, ok := iv.T.Underlying().(*types.Basic); ok && (b.Kind() == types.Uint64 || b.Kind() == types.Uint || b.Kind() == types.Uintptr) {
			if in.Branch(f.Ge(x, f.BigInt(pow2(63)))) {
				return nil, in.newError("sql: converting argument type: uint64 values with high bit set are not supported")
			}
		}
		return x, nil
	case string:
		return x, nil
	case *SymStr:
		in.fail("unsupported", "symbolic string as SQL argument")
	case FloatVal:
		return x, nil
	case SliceVal:
		if x.Ext != nil {
			return x, nil
		}
		if x.Arr == nil {
			return nil, nil
		}
		b, ok := in.sliceBytes(x)
		if !ok {
			in.fail("unsupported", "symbolic bytes as SQL argument")
		}
		return BlobVal(b), nil
	case *Cell:
		if x == nil {
			return nil, nil
		}
		// pointer to byte array (e.g. *factom.Bytes32): driver would reject; model as blob of the bytes
		if b, ok := in.arrayBytes(in.load(x)); ok {
			return BlobVal(b), nil
		}
	case *ArrayVal:
		if b, ok := in.arrayBytes(x); ok {
			return BlobVal(b), nil
		}
	}
	in.fail("unsupported", fmt.Sprintf("sql argument of type %v (%T)", iv.T, iv.V))
	return nil, nil
}

// layerFor: the layer a statement of this handle READS. A transaction that has not written
// yet (deferred BEGIN) reads the committed state.
func (in *Interp) layerFor(st *Store, tx *txHandle) *storeLayer {
	if tx != nil {
		if tx.done {
			panic(sqlErr{"sql: transaction has already been committed or rolled back"})
		}
		if tx.layer != nil {
			return tx.layer
		}
	}
	return st.committed
}

// writeLayerFor: the layer a statement of this handle WRITES. SQLite has one writer: the first
// write of a transaction takes the write lock; anybody else who wants to write meanwhile gets
// "database is locked".
func (in *Interp) writeLayerFor(st *Store, tx *txHandle) *storeLayer {
	if tx == nil {
		if st.writer != nil {
			in.monitor["db-write-during-tx"]++
			panic(sqlErr{"database is locked"})
		}
		return st.committed
	}
	if tx.done {
		panic(sqlErr{"sql: transaction has already been committed or rolled back"})
	}
	if tx.layer == nil {
		if st.writer != nil && st.writer != tx {
			panic(sqlErr{"database is locked"})
		}
		tx.layer = st.committed.clone()
		st.writer = tx
	}
	return tx.layer
}

// execScript runs a script atomically per statement; returns (result, error value).
func (in *Interp) execScript(st *Store, tx *txHandle, text string, params []Value) (res execResult, errv Value) {
	stmts, perr := parseSQL(text)
	if perr != nil {
		in.fail("unsupported", "sql parse: "+perr.Error()+" in: "+text)
	}
	defer func() {
		if r := recover(); r != nil {
			if e, ok := r.(sqlErr); ok {
				errv = in.newError(e.msg)
				return
			}
			panic(r)
		}
	}()
	for _, s := range stmts {
		var layer *storeLayer
		if s.k == "select" || s.k == "skip" {
			layer = in.layerFor(st, tx)
		} else {
			if tx == nil && len(st.open) > 0 {
				in.monitor["db-write-during-tx"]++
			}
			layer = in.writeLayerFor(st, tx)
		}
		var backup map[string]*sqlTable
		if s.k == "insert" || s.k == "update" || s.k == "delete" {
			backup = map[string]*sqlTable{s.table: nil}
			if t, ok := layer.tables[s.table]; ok {
				backup[s.table] = t.clone()
			}
		}
		func() {
			defer func() {
				if r := recover(); r != nil {
					if _, ok := r.(sqlErr); ok && backup != nil {
						for k, t := range backup {
							if t != nil {
								layer.tables[k] = t
							}
						}
					}
					panic(r)
				}
			}()
			res = in.sqlExecStmt(st, layer, s, params)
		}()
	}
	return res, nil
}

func (in *Interp) queryScript(st *Store, tx *txHandle, text string, params []Value) (rs *resultSet, errv Value) {
	if tx != nil {
		tx.hasRead = true
	}
	stmts, perr := parseSQL(text)
	if perr != nil {
		in.fail("unsupported", "sql parse: "+perr.Error()+" in: "+text)
	}
	defer func() {
		if r := recover(); r != nil {
			if e, ok := r.(sqlErr); ok {
				errv = in.newError(e.msg)
				return
			}
			panic(r)
		}
	}()
	if len(stmts) == 0 || stmts[0].k != "select" {
		in.fail("unsupported", "sql: Query with non-select: "+text)
	}
	layer := in.layerFor(st, tx)
	return in.runSelect(layer, stmts[0].sel, params, nil), nil
}

func (in *Interp) resultValue(r execResult) IfaceVal {
	obj := &NativeObj{Kind: "sql.Result", Data: r}
	obj.Call = func(in *Interp, m string, a []Value) Value {
		switch m {
		case "LastInsertId":
			return TupleVal{in.F.Int(r.lastID), IfaceVal{}}
		case "RowsAffected":
			return TupleVal{in.F.Int(r.affected), IfaceVal{}}
		}
		in.fail("unsupported", "sql.Result."+m)
		return nil
	}
	return IfaceVal{T: in.sqlType("driverResult"), V: obj}
}

func errOrNil(e Value) Value {
	if e == nil {
		return IfaceVal{}
	}
	return e
}

func (in *Interp) storeOf(c *Cell) (*Store, *txHandle) {
	if c == nil {
		panic(goPanic{msg: "runtime error: invalid memory address or nil pointer dereference (nil sql handle)"})
	}
	switch h := c.Ext.(type) {
	case *dbHandle:
		return h.st, nil
	case *txHandle:
		return h.st, h
	case *connHandle:
		return h.st, nil // reads through a dedicated connection behave like reads through the pool
	}
	in.fail("unsupported", fmt.Sprintf("sql handle without model (%T)", c.Ext))
	return nil, nil
}

// readonlyConn: a write statement that would run on a pool connection left in query_only mode fails
// the way SQLite fails it.
func (in *Interp) readonlyConn(st *Store, tx *txHandle, text string) Value {
	if !sqlIsWrite(text) {
		return nil
	}
	var cs *connState
	if tx != nil {
		cs = tx.conn
	} else {
		cs = st.nextConn()
	}
	if cs != nil && cs.queryOnly {
		return in.newError("attempt to write a readonly database")
	}
	return nil
}

var pragmaQueryOnlyRE = regexp.MustCompile(`(?i)^\s*PRAGMA\s+query_only\s*=\s*(ON|OFF|1|0|TRUE|FALSE)\s*;?\s*$`)

func registerSQL(ex *Explorer) {
	I := ex.intercepts
	// (*sql.DB).Conn: a dedicated pool connection; its per-connection state survives Close (back to the pool)
	I["(*database/sql.DB).Conn"] = func(in *Interp, fn *ssa.Function, a []Value) Value {
		st, _ := in.storeOf(a[0].(*Cell))
		if e := in.ctxErr(a[1]); e != nil {
			return TupleVal{(*Cell)(nil), e}
		}
		return TupleVal{in.newHandle("Conn", &connHandle{st: st, cs: st.acquireConn()}), IfaceVal{}}
	}
	I["(*database/sql.Conn).Close"] = func(in *Interp, fn *ssa.Function, a []Value) Value {
		ch := a[0].(*Cell).Ext.(*connHandle)
		if ch.closed {
			return in.sentinelError("database/sql.ErrConnDone")
		}
		ch.closed = true
		ch.st.releaseConn(ch.cs)
		return IfaceVal{}
	}
	I["(*database/sql.Conn).ExecContext"] = func(in *Interp, fn *ssa.Function, a []Value) Value {
		ch := a[0].(*Cell).Ext.(*connHandle)
		if e := in.ctxErr(a[1]); e != nil {
			return TupleVal{IfaceVal{}, e}
		}
		text := str(a[2])
		if m := pragmaQueryOnlyRE.FindStringSubmatch(text); m != nil {
			v := strings.ToUpper(m[1])
			ch.cs.queryOnly = v == "ON" || v == "1" || v == "TRUE"
			return TupleVal{in.resultValue(execResult{}), IfaceVal{}}
		}
		if sqlIsWrite(text) && ch.cs.queryOnly {
			return TupleVal{IfaceVal{}, in.newError("attempt to write a readonly database")}
		}
		in.fail("unsupported", "sql.Conn.ExecContext of a statement other than PRAGMA query_only: "+text)
		return nil
	}
	reg := func(ic Intercept, names ...string) {
		for _, n := range names {
			I[n] = ic
		}
	}
	// vrt.NewDB
	I[vrtPath+".NewDB"] = func(in *Interp, fn *ssa.Function, a []Value) Value {
		st := newStore()
		in.DB = st
		return in.newHandle("DB", &dbHandle{st})
	}
	I[vrtPath+".NewFaultDB"] = I[vrtPath+".NewDB"]
	doExec := func(in *Interp, c *Cell, text string, args SliceVal) Value {
		st, tx := in.storeOf(c)
		if e, hit := in.dbFault("Exec"); hit {
			return TupleVal{IfaceVal{}, e}
		}
		params, berr := in.bindArgs(args)
		if berr != nil {
			return TupleVal{IfaceVal{}, berr}
		}
		if roErr := in.readonlyConn(st, tx, text); roErr != nil {
			return TupleVal{IfaceVal{}, roErr}
		}
		r, err := in.execScript(st, tx, text, params)
		if err != nil {
			return TupleVal{IfaceVal{}, err}
		}
		return TupleVal{in.resultValue(r), IfaceVal{}}
	}
	doQuery := func(in *Interp, c *Cell, text string, args SliceVal) (*Cell, Value) {
		st, tx := in.storeOf(c)
		if e, hit := in.dbFault("Query"); hit {
			return nil, e
		}
		params, berr := in.bindArgs(args)
		if berr != nil {
			return nil, berr
		}
		rs, err := in.queryScript(st, tx, text, params)
		if err != nil {
			return nil, err
		}
		rh := &rowsHandle{rs: rs, pos: -1, text: text, site: in.repoCaller()}
		if tx == nil {
			st.dbRows = append(st.dbRows, rh) // an open cursor on a pool connection holds a SHARED lock
		}
		return in.newHandle("Rows", rh), nil
	}
	reg(func(in *Interp, fn *ssa.Function, a []Value) Value {
		return doExec(in, a[0].(*Cell), str(a[1]), a[2].(SliceVal))
	}, "(*database/sql.DB).Exec", "(*database/sql.Tx).Exec")
	reg(func(in *Interp, fn *ssa.Function, a []Value) Value {
		if e := in.ctxErr(a[1]); e != nil {
			return TupleVal{IfaceVal{}, e}
		}
		return doExec(in, a[0].(*Cell), str(a[2]), a[3].(SliceVal))
	}, "(*database/sql.DB).ExecContext", "(*database/sql.Tx).ExecContext")
	q := func(ctx bool) Intercept {
		return func(in *Interp, fn *ssa.Function, a []Value) Value {
			k := 1
			if ctx {
				k = 2
				// database/sql checks the context before it runs the statement
				if e := in.ctxErr(a[1]); e != nil {
					return TupleVal{(*Cell)(nil), e}
				}
			}
			rows, err := doQuery(in, a[0].(*Cell), str(a[k]), a[k+1].(SliceVal))
			if err != nil {
				return TupleVal{(*Cell)(nil), err}
			}
			return TupleVal{rows, IfaceVal{}}
		}
	}
	reg(q(false), "(*database/sql.DB).Query", "(*database/sql.Tx).Query")
	reg(q(true), "(*database/sql.DB).QueryContext", "(*database/sql.Tx).QueryContext", "(*database/sql.Conn).QueryContext")
	qr := func(ctx bool) Intercept {
		return func(in *Interp, fn *ssa.Function, a []Value) Value {
			k := 1
			if ctx {
				k = 2
				if e := in.ctxErr(a[1]); e != nil {
					return in.newHandle("Row", &rowHandle{err: e})
				}
			}
			rows, err := doQuery(in, a[0].(*Cell), str(a[k]), a[k+1].(SliceVal))
			rh := &rowHandle{err: err}
			if rows != nil {
				rh.rows = rows.Ext.(*rowsHandle)
			}
			return in.newHandle("Row", rh)
		}
	}
	reg(qr(false), "(*database/sql.DB).QueryRow", "(*database/sql.Tx).QueryRow")
	reg(qr(true), "(*database/sql.DB).QueryRowContext", "(*database/sql.Tx).QueryRowContext")

	prep := func(ctx bool) Intercept {
		return func(in *Interp, fn *ssa.Function, a []Value) Value {
			st, tx := in.storeOf(a[0].(*Cell))
			k := 1
			if ctx {
				k = 2
			}
			if e, hit := in.dbFault("Prepare"); hit {
				return TupleVal{(*Cell)(nil), e}
			}
			text := str(a[k])
			if _, perr := parseSQL(text); perr != nil {
				in.fail("unsupported", "sql parse: "+perr.Error()+" in: "+text)
			}
			if tx != nil && tx.done {
				return TupleVal{(*Cell)(nil), in.sentinelError("database/sql.ErrTxDone")}
			}
			// prepare-time name resolution errors (unknown table/column) surface here in SQLite
			if err := in.sqlPrepareCheck(st, tx, text); err != nil {
				return TupleVal{(*Cell)(nil), err}
			}
			return TupleVal{in.newHandle("Stmt", &stmtHandle{st: st, tx: tx, text: text}), IfaceVal{}}
		}
	}
	reg(prep(false), "(*database/sql.DB).Prepare", "(*database/sql.Tx).Prepare")
	reg(prep(true), "(*database/sql.DB).PrepareContext", "(*database/sql.Tx).PrepareContext")

	I["(*database/sql.Stmt).Exec"] = func(in *Interp, fn *ssa.Function, a []Value) Value {
		sh := a[0].(*Cell).Ext.(*stmtHandle)
		if e, hit := in.dbFault("Stmt.Exec"); hit {
			return TupleVal{IfaceVal{}, e}
		}
		params, berr := in.bindArgs(a[1].(SliceVal))
		if berr != nil {
			return TupleVal{IfaceVal{}, berr}
		}
		if roErr := in.readonlyConn(sh.st, sh.tx, sh.text); roErr != nil {
			return TupleVal{IfaceVal{}, roErr}
		}
		r, err := in.execScript(sh.st, sh.tx, sh.text, params)
		if err != nil {
			return TupleVal{IfaceVal{}, err}
		}
		return TupleVal{in.resultValue(r), IfaceVal{}}
	}
	I["(*database/sql.Stmt).QueryRow"] = func(in *Interp, fn *ssa.Function, a []Value) Value {
		sh := a[0].(*Cell).Ext.(*stmtHandle)
		rh := &rowHandle{}
		if e, hit := in.dbFault("Stmt.QueryRow"); hit {
			rh.err = e
			return in.newHandle("Row", rh)
		}
		params, berr := in.bindArgs(a[1].(SliceVal))
		if berr != nil {
			rh.err = berr
			return in.newHandle("Row", rh)
		}
		rs, err := in.queryScript(sh.st, sh.tx, sh.text, params)
		if err != nil {
			rh.err = err
		} else {
			rh.rows = &rowsHandle{rs: rs, pos: -1}
		}
		return in.newHandle("Row", rh)
	}
	I["(*database/sql.Stmt).Close"] = func(in *Interp, fn *ssa.Function, a []Value) Value { return IfaceVal{} }

	begin := func(in *Interp, fn *ssa.Function, a []Value) Value {
		st, _ := in.storeOf(a[0].(*Cell))
		if e, hit := in.dbFault("Begin"); hit {
			return TupleVal{(*Cell)(nil), e}
		}
		st.txSeq++
		th := &txHandle{st: st, seq: st.txSeq, conn: st.acquireConn()}
		st.open = append(st.open, th)
		return TupleVal{in.newHandle("Tx", th), IfaceVal{}}
	}
	reg(begin, "(*database/sql.DB).Begin", "(*database/sql.DB).BeginTx")
	I["(*database/sql.Tx).Commit"] = func(in *Interp, fn *ssa.Function, a []Value) Value {
		st, tx := in.storeOf(a[0].(*Cell))
		if tx.done {
			return in.sentinelError("database/sql.ErrTxDone")
		}
		if e, hit := in.dbFault("Commit"); hit {
			// a failed COMMIT leaves nothing applied (go-sqlite3 rolls back); database/sql marks the tx done
			st.finish(tx)
			return e
		}
		if tx.layer != nil {
			// rollback-journal mode (the daemon's default): COMMIT needs the EXCLUSIVE lock, which
			// SQLite grants only when no other connection holds a SHARED lock. A reader that is merely
			// in flight delays the commit (busy timeout); one that never finishes - a read transaction
			// left open, a cursor never closed - makes it fail. go-sqlite3 then rolls the transaction back.
			if who := st.sharedLockHeldByOthers(tx); who != "" {
				st.finish(tx)
				in.monitor["commit-blocked-by-reader"]++
				in.observed = append(in.observed, Observation{Tag: "commit-blocked-by", Term: who})
				return in.newError("database is locked")
			}
			st.committed = tx.layer
		}
		st.finish(tx)
		in.monitor["commits"]++
		return IfaceVal{}
	}
	I["(*database/sql.Tx).Rollback"] = func(in *Interp, fn *ssa.Function, a []Value) Value {
		st, tx := in.storeOf(a[0].(*Cell))
		if tx.done {
			return in.sentinelError("database/sql.ErrTxDone")
		}
		st.finish(tx)
		in.monitor["rollbacks"]++
		return IfaceVal{}
	}
	I["(*database/sql.DB).Close"] = func(in *Interp, fn *ssa.Function, a []Value) Value { return IfaceVal{} }
	I["(*database/sql.DB).SetMaxOpenConns"] = func(in *Interp, fn *ssa.Function, a []Value) Value { return nil }

	I["(*database/sql.Rows).Next"] = func(in *Interp, fn *ssa.Function, a []Value) Value {
		c := a[0].(*Cell)
		if c == nil {
			panic(goPanic{msg: "runtime error: invalid memory address or nil pointer dereference (nil *sql.Rows)"})
		}
		rh := c.Ext.(*rowsHandle)
		if rh.closed {
			return in.F.False
		}
		rh.pos++
		if rh.pos >= len(rh.rs.rows) {
			rh.closed = true
			return in.F.False
		}
		return in.F.True
	}
	I["(*database/sql.Rows).Close"] = func(in *Interp, fn *ssa.Function, a []Value) Value {
		c := a[0].(*Cell)
		if c == nil {
			panic(goPanic{msg: "runtime error: invalid memory address or nil pointer dereference (nil *sql.Rows)"})
		}
		c.Ext.(*rowsHandle).closed = true
		return IfaceVal{}
	}
	I["(*database/sql.Rows).Err"] = func(in *Interp, fn *ssa.Function, a []Value) Value {
		c := a[0].(*Cell)
		if c == nil {
			panic(goPanic{msg: "runtime error: invalid memory address or nil pointer dereference (nil *sql.Rows)"})
		}
		return IfaceVal{}
	}
	I["(*database/sql.Rows).Scan"] = func(in *Interp, fn *ssa.Function, a []Value) Value {
		rh := a[0].(*Cell).Ext.(*rowsHandle)
		if rh.closed || rh.pos < 0 || rh.pos >= len(rh.rs.rows) {
			return in.newError("sql: Scan called without calling Next")
		}
		return in.scanRow(rh.rs.rows[rh.pos], a[1].(SliceVal))
	}
	I["(*database/sql.Row).Scan"] = func(in *Interp, fn *ssa.Function, a []Value) Value {
		rh := a[0].(*Cell).Ext.(*rowHandle)
		if rh.err != nil {
			return rh.err
		}
		rh.rows.closed = true // Row.Scan always closes the underlying cursor
		if len(rh.rows.rs.rows) == 0 {
			return in.globalSentinel("database/sql", "ErrNoRows")
		}
		return in.scanRow(rh.rows.rs.rows[0], a[1].(SliceVal))
	}
	I["(*database/sql.Row).Err"] = func(in *Interp, fn *ssa.Function, a []Value) Value {
		rh := a[0].(*Cell).Ext.(*rowHandle)
		return errOrNil(rh.err)
	}
}

func (in *Interp) globalSentinel(pkg, name string) Value {
	p := in.Prog.ImportedPackage(pkg)
	if p == nil {
		in.fail("unsupported", "package not loaded: "+pkg)
	}
	g := p.Var(name)
	if g == nil {
		in.fail("unsupported", "no global "+pkg+"."+name)
	}
	return in.load(in.globalCell(g))
}

// sqlPrepareCheck resolves table and column names the way sqlite3_prepare does.
func (in *Interp) sqlPrepareCheck(st *Store, tx *txHandle, text string) (errv Value) {
	stmts, _ := parseSQL(text)
	var layer *storeLayer
	func() {
		defer func() {
			if r := recover(); r != nil {
				if e, ok := r.(sqlErr); ok {
					errv = in.newError(e.msg)
					return
				}
				panic(r)
			}
		}()
		layer = in.layerFor(st, tx)
	}()
	if errv != nil {
		return
	}
	for _, s := range stmts {
		if s.k == "skip" || s.k == "create" || s.k == "select" {
			continue
		}
		t, ok := layer.tables[s.table]
		if !ok {
			return in.newError("no such table: " + s.table)
		}
		for _, c := range s.cols {
			if _, ok := t.colIdx[c]; !ok {
				return in.newError(fmt.Sprintf("table %s has no column named %s", t.name, c))
			}
		}
		for _, set := range s.sets {
			if _, ok := t.colIdx[set.col]; !ok {
				return in.newError("no such column: " + set.col)
			}
		}
	}
	return nil
}

// scanRow implements database/sql convertAssign for the destination types the repo uses.
func (in *Interp) scanRow(row []Value, dests SliceVal) Value {
	f := in.F
	if dests.Len != len(row) {
		return in.newError(fmt.Sprintf("sql: expected %d destination arguments in Scan, not %d", len(row), dests.Len))
	}
	for i := 0; i < dests.Len; i++ {
		iv := in.sget(dests, i).(IfaceVal)
		dc, ok := iv.V.(*Cell)
		if !ok || dc == nil {
			return in.newError("sql: Scan destination not a pointer")
		}
		pt, ok := iv.T.(*types.Pointer)
		if !ok {
			in.fail("unsupported", "scan destination type "+iv.T.String())
		}
		et := pt.Elem()
		src := row[i]
		colErr := func(msg string) Value {
			return in.newError(fmt.Sprintf("sql: Scan error on column index %d: %s", i, msg))
		}
		switch {
		case et.String() == "database/sql.NullInt64":
			// {Int64 int64; Valid bool}: NULL -> {0,false}, an integer -> {v,true}
			nv := &StructVal{F: []Value{f.Int(0), f.False}}
			if src != nil {
				t, ok := src.(*sym.Term)
				if !ok {
					return colErr(fmt.Sprintf("converting driver.Value type %T to a NullInt64", src))
				}
				nv = &StructVal{F: []Value{t, f.True}}
			}
			in.storeInto(dc, et, nv)
		case isIntType(et):
			if src == nil {
				return colErr("converting NULL to " + et.String() + " is unsupported")
			}
			t, ok := src.(*sym.Term)
			if !ok {
				if s, isS := src.(string); isS {
					n, err := strconv.ParseInt(s, 10, 64)
					if err != nil {
						return colErr("converting driver.Value type string to a " + et.String() + ": invalid syntax")
					}
					t = f.Int(n)
				} else {
					return colErr(fmt.Sprintf("converting driver.Value type %T to a %s", src, et))
				}
			}
			lo, hi, _ := in.intRange(et)
			// SQL integers are int64 by construction; only narrower/unsigned targets can fail
			var conds []*sym.Term
			if lo.Cmp(int64Min) > 0 {
				conds = append(conds, f.Ge(t, f.BigInt(lo)))
			}
			if hi.Cmp(int64Max) < 0 {
				conds = append(conds, f.Le(t, f.BigInt(hi)))
			}
			inRange := f.And(conds...)
			if !in.BranchLikely(inRange) {
				return colErr("converting driver.Value type int64 to a " + et.String() + ": value out of range")
			}
			dc.V = t
		case isBoolType(et):
			if src == nil {
				return colErr("converting NULL to bool is unsupported")
			}
			t, ok := src.(*sym.Term)
			if !ok {
				return colErr("bool from non-integer")
			}
			if in.Branch(f.Eq(t, f.Int(1))) {
				dc.V = f.True
			} else if in.Branch(f.Eq(t, f.Int(0))) {
				dc.V = f.False
			} else {
				return colErr("sql/driver: couldn't convert to bool")
			}
		case isStringType(et):
			switch x := src.(type) {
			case nil:
				return colErr("converting NULL to string is unsupported")
			case string:
				dc.V = x
			case BlobVal:
				dc.V = string(x)
			case *sym.Term:
				dc.V = strconv.FormatInt(in.Concretize(x), 10)
			case SliceVal:
				dc.V = in.blobToString(x)
			default:
				in.fail("unsupported", fmt.Sprintf("scan %T into string", src))
			}
		default:
			if sl, ok := et.Underlying().(*types.Slice); ok {
				if eb, ok := sl.Elem().Underlying().(*types.Basic); ok && eb.Kind() == types.Uint8 {
					switch x := src.(type) {
					case nil:
						dc.V = SliceVal{}
					case string:
						dc.V = in.bytesToSlice([]byte(x), sl.Elem())
					case BlobVal:
						dc.V = in.bytesToSlice([]byte(x), sl.Elem())
					case SliceVal:
						dc.V = x
					case *sym.Term:
						dc.V = in.bytesToSlice([]byte(strconv.FormatInt(in.Concretize(x), 10)), sl.Elem())
					default:
						in.fail("unsupported", fmt.Sprintf("scan %T into []byte", src))
					}
					continue
				}
			}
			in.fail("unsupported", "scan destination type "+et.String())
		}
	}
	return IfaceVal{}
}

// ---- store snapshots (frame conditions) ----

func (in *Interp) snapshotLayer(q Value) *storeLayer {
	iv, ok := q.(IfaceVal)
	var c *Cell
	if ok {
		c, _ = iv.V.(*Cell)
	} else {
		c, _ = q.(*Cell)
	}
	st, tx := in.storeOf(c)
	return in.layerFor(st, tx).clone()
}

func (in *Interp) sameLayer(a, b *storeLayer, ignore map[string]bool) *sym.Term {
	f := in.F
	env := &sqlEnv{in: in}
	var cs []*sym.Term
	for n, ta := range a.tables {
		if ignore[n] {
			continue
		}
		tb, ok := b.tables[n]
		if !ok || len(ta.rows) != len(tb.rows) {
			return sameDiff(f, 1)
		}
		for i, ra := range ta.rows {
			rb := tb.rows[i]
			if ra.rowid != rb.rowid || len(ra.vals) != len(rb.vals) {
				return sameDiff(f, 2)
			}
			for k := range ra.vals {
				va, vb := ra.vals[k], rb.vals[k]
				if va == nil || vb == nil {
					if va != nil || vb != nil {
						return sameDiff(f, 3)
					}
					continue
				}
				sa, aBlob := va.(SliceVal)
				sb, bBlob := vb.(SliceVal)
				if aBlob || bBlob {
					if !aBlob || !bBlob {
						return sameDiff(f, 4)
					}
					ba, _ := sa.Ext.(*blob)
					bb, _ := sb.Ext.(*blob)
					if ba == nil || bb == nil || ba.kind != bb.kind {
						return sameDiff(f, 5)
					}
					if ba.typ == nil || bb.typ == nil || !types.Identical(ba.typ, bb.typ) {
						return sameDiff(f, 9)
					}
					bc := in.blobEqual(ba, bb)
					if os.Getenv("GOSYM_DIFF") != "" && bc != in.F.True {
						fmt.Fprintf(os.Stderr, "sameLayer: %s row %d col %s blob %s: %v\n", n, i, ta.cols[k].name, ba.typ, bc)
					}
					cs = append(cs, bc)
					continue
				}
				c := env.compare("=", va, vb)
				if os.Getenv("GOSYM_DIFF") != "" && c.(*sym.Term) != in.F.True {
					fmt.Fprintf(os.Stderr, "sameLayer: %s row %d col %s: %v vs %v\n", n, i, ta.cols[k].name, va, vb)
				}
				cs = append(cs, c.(*sym.Term))
			}
		}
	}
	for n := range b.tables {
		if _, ok := a.tables[n]; !ok && !ignore[n] {
			return sameDiff(f, 7)
		}
	}
	return f.And(cs...)
}


func sameDiff(f *sym.Factory, n int) *sym.Term {
	if os.Getenv("GOSYM_DIFF") != "" {
		fmt.Fprintf(os.Stderr, "sameLayer: structural difference #%d\n", n)
	}
	return f.False
}

func registerSnapshots(ex *Explorer) {
	I := ex.intercepts
	I[vrtPath+".NewDBNoCheck"] = func(in *Interp, fn *ssa.Function, a []Value) Value {
		st := newStore()
		in.DB = st
		in.mode["sql-nocheck"] = 1
		return in.newHandle("DB", &dbHandle{st})
	}
	I[vrtPath+".Snapshot"] = func(in *Interp, fn *ssa.Function, a []Value) Value {
		in.snaps = append(in.snaps, in.snapshotLayer(a[0]))
		return in.F.Int(int64(len(in.snaps) - 1))
	}
	I[vrtPath+".SameStore"] = func(in *Interp, fn *ssa.Function, a []Value) Value {
		x := int(in.Concretize(a[0].(*sym.Term)))
		y := int(in.Concretize(a[1].(*sym.Term)))
		ig := map[string]bool{}
		sl := a[2].(SliceVal)
		for i := 0; i < sl.Len; i++ {
			ig[str(in.sget(sl, i))] = true
		}
		return in.sameLayer(in.snaps[x], in.snaps[y], ig)
	}
}
