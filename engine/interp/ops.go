package interp

import (
	"fmt"
	"go/token"
	"go/types"
	"math"
	"math/big"
	"strings"

	"gosym/sym"

	"golang.org/x/tools/go/ssa"
)

var two = big.NewInt(2)

func pow2(k uint) *big.Int { return new(big.Int).Lsh(big.NewInt(1), k) }

// wrap reduces an Int term to the range of Go integer type t.
func (in *Interp) wrap(r *sym.Term, t types.Type) *sym.Term {
	lo, hi, ok := in.intRange(t)
	if !ok {
		return r
	}
	f := in.F
	if r.IsConst() {
		if r.I.Cmp(lo) >= 0 && r.I.Cmp(hi) <= 0 {
			return r
		}
		size := new(big.Int).Add(new(big.Int).Sub(hi, lo), big.NewInt(1))
		v := new(big.Int).Sub(r.I, lo)
		v.Mod(v, size)
		v.Add(v, lo)
		return f.BigInt(v)
	}
	if r.Lo != nil && r.Hi != nil && r.Lo.Cmp(lo) >= 0 && r.Hi.Cmp(hi) <= 0 {
		return r
	}
	size := new(big.Int).Add(new(big.Int).Sub(hi, lo), big.NewInt(1))
	sz := f.BigInt(size)
	// one-step wrap when the value is within one period of the range
	var res *sym.Term
	if r.Lo != nil && r.Hi != nil &&
		r.Lo.Cmp(new(big.Int).Sub(lo, size)) >= 0 && r.Hi.Cmp(new(big.Int).Add(hi, size)) <= 0 {
		res = r
		if r.Hi.Cmp(hi) > 0 {
			res = f.Ite(f.Gt(r, f.BigInt(hi)), f.Sub(r, sz), res)
		}
		if r.Lo.Cmp(lo) < 0 {
			res = f.Ite(f.Lt(r, f.BigInt(lo)), f.Add(r, sz), res)
		}
	} else {
		// general: ((r - lo) mod size) + lo
		res = f.Add(f.Mod(f.Sub(r, f.BigInt(lo)), sz), f.BigInt(lo))
	}
	return in.F.Bounded(res, lo, hi)
}

func (in *Interp) binop(op token.Token, a, b Value, t types.Type) Value {
	f := in.F
	switch x := a.(type) {
	case *sym.Term:
		y, ok := b.(*sym.Term)
		if !ok {
			in.fail("unsupported", fmt.Sprintf("binop %s on Term and %T", op, b))
		}
		if x.Sort == sym.SBool {
			switch op {
			case token.EQL:
				return f.Eq(x, y)
			case token.NEQ:
				return f.Not(f.Eq(x, y))
			case token.LAND, token.AND:
				return f.And(x, y)
			case token.LOR, token.OR:
				return f.Or(x, y)
			}
			in.fail("unsupported", "bool binop "+op.String())
		}
		return in.intBinop(op, x, y, t)
	case FloatVal:
		y := b.(FloatVal)
		return in.floatBinop(op, x, y)
	case string:
		switch y := b.(type) {
		case string:
			switch op {
			case token.ADD:
				return x + y
			case token.EQL:
				return f.Bool(x == y)
			case token.NEQ:
				return f.Bool(x != y)
			case token.LSS:
				return f.Bool(x < y)
			case token.LEQ:
				return f.Bool(x <= y)
			case token.GTR:
				return f.Bool(x > y)
			case token.GEQ:
				return f.Bool(x >= y)
			}
		case *SymStr:
			switch op {
			case token.EQL:
				return in.symStrEq(y, x)
			case token.NEQ:
				return f.Not(in.symStrEq(y, x))
			case token.ADD:
				return in.symConcat(in.toSymStr(x), y)
			}
		}
	case *SymStr:
		switch op {
		case token.EQL:
			return in.valuesEqual(a, b, t)
		case token.NEQ:
			return f.Not(in.valuesEqual(a, b, t))
		case token.ADD:
			return in.symConcat(x, in.toSymStr(b))
		}
	}
	switch op {
	case token.EQL:
		return in.valuesEqual(a, b, t)
	case token.NEQ:
		return f.Not(in.valuesEqual(a, b, t))
	}
	in.fail("unsupported", fmt.Sprintf("binop %s on %T,%T", op, a, b))
	return nil
}

func (in *Interp) toSymStr(v Value) *SymStr {
	switch s := v.(type) {
	case *SymStr:
		return s
	case string:
		r := &SymStr{}
		for i := 0; i < len(s); i++ {
			r.B = append(r.B, in.F.Int(int64(s[i])))
		}
		return r
	}
	in.fail("unsupported", fmt.Sprintf("toSymStr %T", v))
	return nil
}

func (in *Interp) symConcat(a, b *SymStr) *SymStr {
	return &SymStr{B: append(append([]*sym.Term{}, a.B...), b.B...)}
}

func (in *Interp) floatBinop(op token.Token, x, y FloatVal) Value {
	f := in.F
	if x.T != nil || y.T != nil {
		return in.fpBinop(op, x, y)
	}
	known := x.Known && y.Known
	switch op {
	case token.ADD:
		return FloatVal{F: x.F + y.F, Known: known}
	case token.SUB:
		return FloatVal{F: x.F - y.F, Known: known}
	case token.MUL:
		return FloatVal{F: x.F * y.F, Known: known}
	case token.QUO:
		return FloatVal{F: x.F / y.F, Known: known}
	}
	if !known {
		in.fail("unsupported", "comparison of unknown float")
	}
	switch op {
	case token.EQL:
		return f.Bool(x.F == y.F)
	case token.NEQ:
		return f.Bool(x.F != y.F)
	case token.LSS:
		return f.Bool(x.F < y.F)
	case token.LEQ:
		return f.Bool(x.F <= y.F)
	case token.GTR:
		return f.Bool(x.F > y.F)
	case token.GEQ:
		return f.Bool(x.F >= y.F)
	}
	in.fail("unsupported", "float binop "+op.String())
	return nil
}

func (in *Interp) nonNeg(x *sym.Term) bool { return x.Lo != nil && x.Lo.Sign() >= 0 }

func (in *Interp) intBinop(op token.Token, x, y *sym.Term, t types.Type) Value {
	f := in.F
	switch op {
	case token.ADD:
		return in.wrap(f.Add(x, y), t)
	case token.SUB:
		return in.wrap(f.Sub(x, y), t)
	case token.MUL:
		return in.wrap(f.Mul(x, y), t)
	case token.QUO, token.REM:
		if in.Branch(f.Eq(y, f.Int(0))) {
			panic(goPanic{msg: "runtime error: integer divide by zero"})
		}
		var q *sym.Term
		if in.nonNeg(x) && in.nonNeg(y) {
			q = f.Div(x, y)
		} else if x.IsConst() && y.IsConst() {
			q = f.BigInt(new(big.Int).Quo(x.I, y.I))
		} else {
			ax := f.Ite(f.Lt(x, f.Int(0)), f.Neg(x), x)
			ay := f.Ite(f.Lt(y, f.Int(0)), f.Neg(y), y)
			aq := f.Div(ax, ay)
			neg := f.Not(f.Eq(f.Lt(x, f.Int(0)), f.Lt(y, f.Int(0))))
			q = f.Ite(neg, f.Neg(aq), aq)
		}
		if op == token.QUO {
			return in.wrap(q, t)
		}
		return in.wrap(f.Sub(x, f.Mul(q, y)), t)
	case token.EQL:
		return f.Eq(x, y)
	case token.NEQ:
		return f.Not(f.Eq(x, y))
	case token.LSS:
		return f.Lt(x, y)
	case token.LEQ:
		return f.Le(x, y)
	case token.GTR:
		return f.Gt(x, y)
	case token.GEQ:
		return f.Ge(x, y)
	case token.SHL:
		if y.IsConst() {
			return in.wrap(f.Mul(x, f.BigInt(pow2(uint(y.I.Uint64())))), t)
		}
	case token.SHR:
		if y.IsConst() {
			if in.nonNeg(x) {
				return f.Div(x, f.BigInt(pow2(uint(y.I.Uint64()))))
			}
			if x.IsConst() {
				return f.BigInt(new(big.Int).Rsh(x.I, uint(y.I.Uint64())))
			}
			// arithmetic shift = floor division
			return f.Div(x, f.BigInt(pow2(uint(y.I.Uint64()))))
		}
	case token.AND, token.OR, token.XOR, token.AND_NOT:
		if x.IsConst() && y.IsConst() {
			lo, hi, _ := in.intRange(t)
			_ = hi
			signed := lo.Sign() < 0
			a, b := toTwos(x.I, signed), toTwos(y.I, signed)
			var r *big.Int
			switch op {
			case token.AND:
				r = new(big.Int).And(a, b)
			case token.OR:
				r = new(big.Int).Or(a, b)
			case token.XOR:
				r = new(big.Int).Xor(a, b)
			case token.AND_NOT:
				r = new(big.Int).AndNot(a, b)
			}
			return in.wrap(f.BigInt(r), t)
		}
		if op == token.AND {
			// x & (2^k - 1)
			if y.IsConst() && in.nonNeg(x) {
				m := new(big.Int).Add(y.I, big.NewInt(1))
				if m.Sign() > 0 && new(big.Int).And(m, y.I).Sign() == 0 {
					return f.Mod(x, f.BigInt(m))
				}
			}
			if x.IsConst() && in.nonNeg(y) {
				m := new(big.Int).Add(x.I, big.NewInt(1))
				if m.Sign() > 0 && new(big.Int).And(m, x.I).Sign() == 0 {
					return f.Mod(y, f.BigInt(m))
				}
			}
		}
	}
	in.fail("unsupported", fmt.Sprintf("symbolic integer op %s", op))
	return nil
}

func toTwos(v *big.Int, signed bool) *big.Int {
	if v.Sign() >= 0 {
		return v
	}
	return new(big.Int).Add(v, pow2(64))
}

func (in *Interp) unop(x *ssa.UnOp, v Value) Value {
	f := in.F
	switch x.Op {
	case token.MUL:
		c, ok := v.(*Cell)
		if !ok {
			in.fail("unsupported", fmt.Sprintf("deref of %T", v))
		}
		return in.load(c)
	case token.NOT:
		return f.Not(v.(*sym.Term))
	case token.SUB:
		switch t := v.(type) {
		case *sym.Term:
			return in.wrap(f.Neg(t), x.Type())
		case FloatVal:
			return FloatVal{F: -t.F, Known: t.Known}
		}
	case token.XOR:
		t := v.(*sym.Term)
		lo, _, _ := in.intRange(x.Type())
		if lo.Sign() < 0 {
			return in.wrap(f.Sub(f.Int(-1), t), x.Type())
		}
		_, hi, _ := in.intRange(x.Type())
		return f.Sub(f.BigInt(hi), t)
	case token.ARROW:
		rv, ok := in.chanRecv(v)
		if x.CommaOk {
			return TupleVal{rv, f.Bool(ok)}
		}
		return rv
	}
	in.fail("unsupported", "unop "+x.Op.String())
	return nil
}

func (in *Interp) convert(v Value, from, to types.Type) Value {
	f := in.F
	switch {
	case isIntType(to):
		switch x := v.(type) {
		case *sym.Term:
			return in.wrap(x, to)
		case FloatVal:
			if x.T != nil {
				// truncation toward zero of an exact dyadic value (non-negative values only)
				if in.Branch(f.Lt(x.T, f.Int(0))) {
					in.fail("unsupported", "negative symbolic float to int")
				}
				return in.wrap(f.Div(x.T, f.BigInt(x.Den)), to)
			}
			if !x.Known {
				in.fail("unsupported", "unknown float to int")
			}
			t := math.Trunc(x.F)
			bf := new(big.Float).SetFloat64(t)
			bi, _ := bf.Int(nil)
			return in.wrap(f.BigInt(bi), to)
		}
	case isFloatType(to):
		switch x := v.(type) {
		case *sym.Term:
			if x.IsConst() {
				bf := new(big.Float).SetInt(x.I)
				fl, _ := bf.Float64()
				return FloatVal{F: fl, Known: true}
			}
			if in.mode["fp"] == 1 {
				return in.intToFP(x, from)
			}
			return FloatVal{}
		case FloatVal:
			if b, ok := to.Underlying().(*types.Basic); ok && b.Kind() == types.Float32 && x.Known {
				return FloatVal{F: float64(float32(x.F)), Known: true}
			}
			return x
		}
	case isStringType(to):
		switch x := v.(type) {
		case string, *SymStr:
			return x
		case *sym.Term: // rune -> string
			r := in.Concretize(x)
			return string(rune(r))
		case SliceVal:
			if x.Ext != nil {
				return in.blobToString(x)
			}
			// []byte or []rune -> string
			et := from.Underlying().(*types.Slice).Elem().Underlying().(*types.Basic)
			if et.Kind() == types.Int32 {
				var sb strings.Builder
				for i := 0; i < x.Len; i++ {
					sb.WriteRune(rune(in.Concretize(in.sget(x, i).(*sym.Term))))
				}
				return sb.String()
			}
			bs := make([]*sym.Term, x.Len)
			allc := true
			for i := 0; i < x.Len; i++ {
				bs[i] = in.sget(x, i).(*sym.Term)
				if !bs[i].IsConst() {
					allc = false
				}
			}
			if allc {
				b := make([]byte, len(bs))
				for i := range bs {
					b[i] = byte(bs[i].I.Int64())
				}
				return string(b)
			}
			return &SymStr{B: bs}
		}
	}
	if sl, ok := to.Underlying().(*types.Slice); ok {
		switch x := v.(type) {
		case string:
			eb := sl.Elem().Underlying().(*types.Basic)
			if eb.Kind() == types.Int32 {
				rs := []rune(x)
				vals := make([]Value, len(rs))
				for i, r := range rs {
					vals[i] = f.Int(int64(r))
				}
				return in.sliceFrom(sl.Elem(), vals)
			}
			return in.bytesToSlice([]byte(x), sl.Elem())
		case *SymStr:
			vals := make([]Value, len(x.B))
			for i, b := range x.B {
				vals[i] = b
			}
			return in.sliceFrom(sl.Elem(), vals)
		case SliceVal:
			return x
		}
	}
	// pointer <-> unsafe.Pointer, named conversions
	switch v.(type) {
	case *Cell, *StructVal, *ArrayVal, SliceVal, *MapVal, IfaceVal, *Closure, *ssa.Function:
		return v
	}
	in.fail("unsupported", fmt.Sprintf("convert %T from %s to %s", v, from, to))
	return nil
}

func (in *Interp) bytesToSlice(b []byte, et types.Type) SliceVal {
	vals := make([]Value, len(b))
	for i, c := range b {
		vals[i] = in.F.Int(int64(c))
	}
	return in.sliceFrom(et, vals)
}

// sliceBytes extracts concrete bytes from a []byte value; ok=false if symbolic.
func (in *Interp) sliceBytes(s SliceVal) ([]byte, bool) {
	out := make([]byte, s.Len)
	for i := 0; i < s.Len; i++ {
		t, ok := in.sget(s, i).(*sym.Term)
		if !ok || !t.IsConst() {
			return nil, false
		}
		out[i] = byte(t.I.Int64())
	}
	return out, true
}

func (in *Interp) makeSlice(et types.Type, n, cp int) SliceVal {
	at := types.NewArray(et, int64(cp))
	arr := &Cell{T: at, Agg: true}
	return SliceVal{Arr: arr, Len: n, Cap: cp}
}

// sliceFrom builds a slice over a compact array holding vals.
func (in *Interp) sliceFrom(et types.Type, vals []Value) SliceVal {
	at := types.NewArray(et, int64(len(vals)))
	arr := &Cell{T: at, Agg: true, V: &ArrayVal{E: vals}}
	return SliceVal{Arr: arr, Len: len(vals), Cap: len(vals)}
}

func (in *Interp) index(x, idx Value, xt types.Type) Value {
	i := int(in.Concretize(idx.(*sym.Term)))
	switch a := x.(type) {
	case *ArrayVal:
		if i < 0 || i >= len(a.E) {
			panic(goPanic{msg: fmt.Sprintf("runtime error: index out of range [%d] with length %d", i, len(a.E))})
		}
		return copyValue(a.E[i])
	case string:
		if i < 0 || i >= len(a) {
			panic(goPanic{msg: fmt.Sprintf("runtime error: index out of range [%d] with length %d", i, len(a))})
		}
		return in.F.Int(int64(a[i]))
	case *SymStr:
		if i < 0 || i >= len(a.B) {
			panic(goPanic{msg: fmt.Sprintf("runtime error: index out of range [%d] with length %d", i, len(a.B))})
		}
		return a.B[i]
	}
	in.fail("unsupported", fmt.Sprintf("index of %T", x))
	return nil
}

func (in *Interp) indexAddr(x, idx Value) Value {
	i := int(in.Concretize(idx.(*sym.Term)))
	switch a := x.(type) {
	case *Cell:
		if a == nil {
			panic(goPanic{msg: "runtime error: invalid memory address or nil pointer dereference"})
		}
		if i < 0 || i >= in.alen(a) {
			panic(goPanic{msg: fmt.Sprintf("runtime error: index out of range [%d] with length %d", i, in.alen(a))})
		}
		return in.acell(a, i)
	case SliceVal:
		if a.Ext != nil && a.Arr == nil {
			in.materializeBlob(&a)
		}
		if i < 0 || i >= a.Len {
			panic(goPanic{msg: fmt.Sprintf("runtime error: index out of range [%d] with length %d", i, a.Len)})
		}
		return in.scell(a, i)
	}
	in.fail("unsupported", fmt.Sprintf("indexAddr of %T", x))
	return nil
}

// ---- maps ----

// rm resolves a map of frozen package-init state to this path's private copy, if the path has
// written to it (copy-on-write: the shared original is never modified).
func (in *Interp) rm(m *MapVal) *MapVal {
	if m != nil && m.Frozen {
		if c, ok := in.mapCOW[m]; ok {
			return c
		}
	}
	return m
}

// wm returns the map to WRITE: for a frozen map, the path's private copy (made on first write).
func (in *Interp) wm(m *MapVal) *MapVal {
	if m == nil || !m.Frozen {
		return m
	}
	if c, ok := in.mapCOW[m]; ok {
		return c
	}
	c := &MapVal{KT: m.KT, VT: m.VT, Shared: m.Shared}
	c.E = make([]mapEntry, len(m.E))
	copy(c.E, m.E) // keys and values stay shared and frozen; entries are replaced, never mutated in place
	if in.mapCOW == nil {
		in.mapCOW = map[*MapVal]*MapVal{}
	}
	in.mapCOW[m] = c
	return c
}

func (in *Interp) mapFind(m *MapVal, k Value) int {
	m = in.rm(m)
	if m == nil {
		return -1
	}
	if m.Shared {
		in.recordAccess(m, false)
	}
	for i := range m.E {
		if in.Branch(in.valuesEqual(m.E[i].K, k, m.KT)) {
			return i
		}
	}
	return -1
}

func (in *Interp) lookup(x, k Value, ins *ssa.Lookup) Value {
	switch m := x.(type) {
	case *MapVal:
		m = in.rm(m)
		i := in.mapFind(m, k)
		var v Value
		if i >= 0 {
			v = copyValue(m.E[i].V)
		} else {
			v = in.zero(ins.X.Type().Underlying().(*types.Map).Elem())
		}
		if ins.CommaOk {
			return TupleVal{v, in.F.Bool(i >= 0)}
		}
		return v
	case string:
		return in.index(m, k, nil)
	case *SymStr:
		return in.index(m, k, nil)
	}
	in.fail("unsupported", fmt.Sprintf("lookup in %T", x))
	return nil
}

func (in *Interp) mapUpdate(m *MapVal, k, v Value) {
	if m == nil {
		panic(goPanic{msg: "assignment to entry in nil map"})
	}
	m = in.wm(m)
	if m.Shared {
		in.recordAccess(m, true)
	}
	i := in.mapFind(m, k)
	if i >= 0 {
		m.E[i].V = copyValue(v)
		return
	}
	m.E = append(m.E, mapEntry{K: copyValue(k), V: copyValue(v)})
}

func (in *Interp) mapDelete(m *MapVal, k Value) {
	m = in.wm(m)
	i := in.mapFind(m, k)
	if i >= 0 {
		m.E = append(m.E[:i:i], m.E[i+1:]...)
	}
}

func (in *Interp) makeIter(x Value) Value {
	switch m := x.(type) {
	case *MapVal:
		m = in.rm(m)
		it := &MapIter{}
		if m != nil && m.Shared {
			in.recordAccess(m, false)
		}
		if m != nil {
			order := make([]int, len(m.E))
			for i := range order {
				order[i] = i
			}
			if in.permute && len(order) > 1 {
				// order oracle: any permutation
				for i := 0; i < len(order)-1; i++ {
					j := i + in.Choose("", len(order)-i)
					order[i], order[j] = order[j], order[i]
				}
				in.Res.Permuted++
			}
			for _, i := range order {
				it.keys = append(it.keys, m.E[i].K)
				it.vals = append(it.vals, m.E[i].V)
			}
		}
		return it
	case string:
		return &MapIter{isStr: true, str: m}
	}
	in.fail("unsupported", fmt.Sprintf("range over %T", x))
	return nil
}

func (in *Interp) iterNext(it *MapIter, ins *ssa.Next) Value {
	f := in.F
	if it.isStr {
		if it.spos >= len(it.str) {
			return TupleVal{f.False, f.Int(0), f.Int(0)}
		}
		for i, r := range it.str[it.spos:] {
			_ = i
			p := it.spos
			it.spos += len(string(r))
			if r == 0xFFFD { // possibly invalid byte
				it.spos = p + 1
			}
			return TupleVal{f.True, f.Int(int64(p)), f.Int(int64(r))}
		}
	}
	if it.pos >= len(it.keys) {
		tt := ins.Type().(*types.Tuple)
		var kz, vz Value
		if tt.At(1).Type() != nil && !isInvalid(tt.At(1).Type()) {
			kz = in.zero(tt.At(1).Type())
		}
		if tt.At(2).Type() != nil && !isInvalid(tt.At(2).Type()) {
			vz = in.zero(tt.At(2).Type())
		}
		return TupleVal{f.False, kz, vz}
	}
	k, v := it.keys[it.pos], it.vals[it.pos]
	it.pos++
	return TupleVal{f.True, copyValue(k), copyValue(v)}
}

func isInvalid(t types.Type) bool {
	b, ok := t.(*types.Basic)
	return ok && b.Kind() == types.Invalid
}

// ---- slicing ----

func (in *Interp) sliceOp(fr *frame, x *ssa.Slice) Value {
	v := in.get(fr, x.X)
	geti := func(e ssa.Value, def int) int {
		if e == nil {
			return def
		}
		return int(in.Concretize(in.get(fr, e).(*sym.Term)))
	}
	switch s := v.(type) {
	case string:
		lo := geti(x.Low, 0)
		hi := geti(x.High, len(s))
		if lo < 0 || hi > len(s) || lo > hi {
			panic(goPanic{msg: fmt.Sprintf("runtime error: slice bounds out of range [%d:%d] with length %d", lo, hi, len(s))})
		}
		return s[lo:hi]
	case *SymStr:
		lo := geti(x.Low, 0)
		hi := geti(x.High, len(s.B))
		if lo < 0 || hi > len(s.B) || lo > hi {
			panic(goPanic{msg: "runtime error: slice bounds out of range"})
		}
		return &SymStr{B: s.B[lo:hi]}
	case SliceVal:
		if s.Ext != nil && s.Arr == nil {
			if x.Low == nil && x.High == nil {
				return s
			}
			in.materializeBlob(&s)
		}
		lo := geti(x.Low, 0)
		hi := geti(x.High, s.Len)
		mx := geti(x.Max, s.Cap)
		if lo < 0 || hi > s.Cap || lo > hi || mx > s.Cap || hi > mx {
			panic(goPanic{msg: fmt.Sprintf("runtime error: slice bounds out of range [%d:%d] with capacity %d", lo, hi, s.Cap)})
		}
		if s.Arr == nil {
			return SliceVal{}
		}
		return SliceVal{Arr: s.Arr, Off: s.Off + lo, Len: hi - lo, Cap: mx - lo}
	case *Cell: // pointer to array
		if s == nil {
			panic(goPanic{msg: "runtime error: invalid memory address or nil pointer dereference"})
		}
		n := in.alen(s)
		lo := geti(x.Low, 0)
		hi := geti(x.High, n)
		mx := geti(x.Max, n)
		if lo < 0 || hi > n || lo > hi || mx > n || hi > mx {
			panic(goPanic{msg: "runtime error: slice bounds out of range"})
		}
		return SliceVal{Arr: s, Off: lo, Len: hi - lo, Cap: mx - lo}
	}
	in.fail("unsupported", fmt.Sprintf("slice of %T", v))
	return nil
}

// ---- builtins ----

func (in *Interp) builtin(b *ssa.Builtin, args []Value, cc *ssa.CallCommon) Value {
	f := in.F
	switch b.Name() {
	case "len":
		switch x := args[0].(type) {
		case string:
			return f.Int(int64(len(x)))
		case *SymStr:
			return f.Int(int64(len(x.B)))
		case SliceVal:
			if x.Ext != nil && x.Arr == nil {
				return f.Int(int64(in.blobLen(x)))
			}
			return f.Int(int64(x.Len))
		case *MapVal:
			x = in.rm(x)
			if x == nil {
				return f.Int(0)
			}
			return f.Int(int64(len(x.E)))
		case *ArrayVal:
			return f.Int(int64(len(x.E)))
		case *Cell:
			return f.Int(int64(in.alen(x)))
		case *Opaque:
			return f.Int(0)
		}
	case "cap":
		switch x := args[0].(type) {
		case SliceVal:
			return f.Int(int64(x.Cap))
		case *ArrayVal:
			return f.Int(int64(len(x.E)))
		case *Cell:
			return f.Int(int64(in.alen(x)))
		}
	case "append":
		s := args[0].(SliceVal)
		var et types.Type
		if cc != nil {
			et = cc.Args[0].Type().Underlying().(*types.Slice).Elem()
		} else if s.Arr != nil {
			et = s.Arr.T.(*types.Array).Elem()
		}
		var add []Value
		switch y := args[1].(type) {
		case SliceVal:
			if y.Ext != nil && y.Arr == nil {
				in.materializeBlob(&y)
			}
			for i := 0; i < y.Len; i++ {
				add = append(add, in.sget(y, i))
			}
		case string:
			for i := 0; i < len(y); i++ {
				add = append(add, f.Int(int64(y[i])))
			}
		case *SymStr:
			for _, b := range y.B {
				add = append(add, b)
			}
		default:
			in.fail("unsupported", fmt.Sprintf("append of %T", args[1]))
		}
		if len(add) == 0 {
			return s
		}
		if s.Ext != nil && s.Arr == nil {
			in.materializeBlob(&s)
		}
		if s.Arr != nil && s.Len+len(add) <= s.Cap {
			for i, v := range add {
				in.storeInto(in.scell(s, s.Len+i), et, copyValue(v))
			}
			return SliceVal{Arr: s.Arr, Off: s.Off, Len: s.Len + len(add), Cap: s.Cap}
		}
		ncap := s.Cap * 2
		if ncap < s.Len+len(add) {
			ncap = s.Len + len(add)
		}
		vals := make([]Value, ncap)
		for i := 0; i < s.Len; i++ {
			vals[i] = in.sget(s, i)
		}
		for i, v := range add {
			vals[s.Len+i] = copyValue(v)
		}
		if ncap > s.Len+len(add) {
			z := in.zero(et)
			for i := s.Len + len(add); i < ncap; i++ {
				vals[i] = z
			}
		}
		ns := in.sliceFrom(et, vals)
		ns.Len = s.Len + len(add)
		return ns
	case "copy":
		d := args[0].(SliceVal)
		var src []Value
		switch y := args[1].(type) {
		case SliceVal:
			if y.Ext != nil && y.Arr == nil {
				in.materializeBlob(&y)
			}
			for i := 0; i < y.Len; i++ {
				src = append(src, in.sget(y, i))
			}
		case string:
			for i := 0; i < len(y); i++ {
				src = append(src, f.Int(int64(y[i])))
			}
		case *SymStr:
			for _, b := range y.B {
				src = append(src, b)
			}
		}
		n := len(src)
		if d.Len < n {
			n = d.Len
		}
		for i := 0; i < n; i++ {
			c := in.scell(d, i)
			in.storeInto(c, c.T, copyValue(src[i]))
		}
		return f.Int(int64(n))
	case "delete":
		in.mapDelete(args[0].(*MapVal), args[1])
		return nil
	case "panic":
		panic(goPanic{val: args[0]})
	case "recover":
		if len(in.deferStack) > 0 {
			fr := in.deferStack[len(in.deferStack)-1]
			if fr.panicking != nil {
				p := fr.panicking
				fr.panicking = nil
				if p.val != nil {
					return p.val
				}
				return IfaceVal{T: types.Typ[types.String], V: p.msg}
			}
		}
		return IfaceVal{}
	case "print", "println":
		return nil
	case "min", "max":
		acc := args[0].(*sym.Term)
		for _, a := range args[1:] {
			t := a.(*sym.Term)
			if b.Name() == "min" {
				acc = f.Ite(f.Lt(t, acc), t, acc)
			} else {
				acc = f.Ite(f.Gt(t, acc), t, acc)
			}
		}
		return acc
	case "close":
		in.chanClose(args[0])
		return nil
	case "ssa:wrapnilchk":
		if isNilPtr(args[0]) {
			panic(goPanic{msg: "value method called using nil pointer"})
		}
		return args[0]
	}
	in.fail("unsupported", "builtin "+b.Name())
	return nil
}
