// Package interp: a path-exploring symbolic interpreter over go/ssa.
package interp

import (
	"fmt"
	"go/constant"
	"go/token"
	"go/types"
	"math/big"
	"os"
	"strings"
	"sync"

	"gosym/sym"

	"golang.org/x/tools/go/ssa"
)

// ---- path termination signals (Go panics caught by the explorer) ----

type pathEnd struct {
	kind string // "done", "infeasible", "assume", "exit", "unsupported", "fatal", "bound", "crash"
	msg  string
}

func unsupported(msg string) pathEnd { return pathEnd{kind: "unsupported", msg: msg} }

// goPanic is an interpreted Go panic travelling up the interpreted stack.
type goPanic struct {
	val Value  // panic argument (IfaceVal) if explicit
	msg string // message for runtime errors
}

func (g goPanic) String() string {
	if g.msg != "" {
		return g.msg
	}
	if iv, ok := g.val.(IfaceVal); ok {
		if s, ok := iv.V.(string); ok {
			return s
		}
		return fmt.Sprintf("panic(%v)", iv.T)
	}
	return "panic"
}

type deferred struct {
	fn   Value
	args []Value
	recv *IfaceVal // for invoke-mode defers
	meth *types.Func
}

type frame struct {
	fn        *ssa.Function
	info      *fnInfo
	locals    []Value
	defers    []deferred
	panicking *goPanic
	block     *ssa.BasicBlock
	prev      *ssa.BasicBlock
	caller    *frame
}

type fnInfo struct {
	index map[ssa.Value]int
	n     int
}

var fnInfoCache sync.Map

func infoFor(fn *ssa.Function) *fnInfo {
	if v, ok := fnInfoCache.Load(fn); ok {
		return v.(*fnInfo)
	}
	fi := &fnInfo{index: map[ssa.Value]int{}}
	add := func(v ssa.Value) {
		fi.index[v] = fi.n
		fi.n++
	}
	for _, p := range fn.Params {
		add(p)
	}
	for _, fv := range fn.FreeVars {
		add(fv)
	}
	for _, b := range fn.Blocks {
		for _, ins := range b.Instrs {
			if v, ok := ins.(ssa.Value); ok {
				add(v)
			}
		}
	}
	fnInfoCache.Store(fn, fi)
	return fi
}

// Decision trace element.
type Decision struct {
	V    int  // chosen alternative
	N    int  // number of alternatives
	Kind byte // 'b' branch, 'c' choose, 'v' concretized value
	Val  string
}

type Interp struct {
	Prog *ssa.Program
	F    *sym.Factory
	S    *sym.Solver
	Ex   *Explorer

	globals map[*ssa.Global]*Cell
	inited  map[*ssa.Package]bool
	gs       *gsched            // goroutines of this path (nil until the first go statement / channel operation)
	onceDone map[*Cell]bool     // sync.Once values already used on this path
	wgs      map[*Cell]*wgState // sync.WaitGroup counters of this path
	viperKV  map[string]Value   // viper stand-in: keys set on this path
	syncMaps map[*Cell]*[]smEntry // sync.Map contents of this path
	mapCOW  map[*MapVal]*MapVal // this path's private copies of frozen (package-init) maps it wrote to

	prefix []Decision // decisions to follow
	trace  []Decision // decisions taken so far (prefix + new)
	forks  [][]Decision

	deferStack []*frame
	depth      int
	steps      int

	// per-path results
	Res *PathResult

	// models
	DB        *Store
	varSeq    map[string]int
	choiceLog []ChoiceRec
	inputs    []*sym.Term
	monitor   map[string]int
	stubs     map[string]Value
	permute   bool
	divCache  map[[2]int]*sym.Term
	lastQ     *sym.Term
	faultAt   int // index of failing DB call (-1 none)
	dbCalls   int
	crashAt   int
	sentinels map[string]IfaceVal
	natives   map[*Cell]interface{}
	curFrame  *frame
	observed  []Observation
	timeSeq   int
	mode      map[string]int
	snaps     []*storeLayer
	initRoot  *ssa.Package
	wc        *workerCache
	pending   []pendingAssert
	asserted  []*sym.Term
	constViolated bool
	rs        *raceState
	pc        []*sym.Term
}

type ChoiceRec struct {
	Tag string `json:"tag"`
	V   int    `json:"v"`
	N   int    `json:"n"`
}

type Observation struct {
	Tag  string
	Term Value
}

func (in *Interp) fail(kind, msg string) {
	if kind == "unsupported" || kind == "unknown" {
		msg += " @ " + in.stack()
	}
	panic(pathEnd{kind: kind, msg: msg})
}

func (in *Interp) stack() string {
	var parts []string
	for fr := in.curFrame; fr != nil && len(parts) < 12; fr = fr.caller {
		parts = append(parts, fr.fn.String())
	}
	return strings.Join(parts, " < ")
}

// ---- branching ----

// assert adds c to the path condition.
func (in *Interp) assertPC(c *sym.Term) {
	if c.IsConst() {
		if !c.B {
			in.flushAsserts()
			in.fail("infeasible", "")
		}
		return
	}
	in.flushAsserts()
	in.pc = append(in.pc, c)
	in.S.Assert(c)
	in.Res.PCSize++
}

func (in *Interp) takeDecision(n int, kind byte) (int, bool) {
	if len(in.trace) < len(in.prefix) {
		d := in.prefix[len(in.trace)]
		if d.N != n || d.Kind != kind {
			in.fail("unsupported", fmt.Sprintf("non-deterministic replay: decision %d expected %c/%d got %c/%d", len(in.trace), d.Kind, d.N, kind, n))
		}
		in.trace = append(in.trace, d)
		return d.V, true
	}
	return 0, false
}

// Branch decides a symbolic condition, forking the path when both sides are feasible.
func (in *Interp) Branch(c *sym.Term) bool {
	if c.IsConst() {
		return c.B
	}
	if v, ok := in.takeDecision(2, 'b'); ok {
		if v == 1 {
			in.assertPC(c)
		} else {
			in.assertPC(in.F.Not(c))
		}
		return v == 1
	}
	in.S.SetTimeout(in.Ex.BranchTimeoutMs)
	defer in.S.SetTimeout(in.Ex.TimeoutMs)
	if in.Ex.SiteStats != nil {
		site := "?"
		if in.curFrame != nil {
			site = in.curFrame.fn.String()
		}
		in.Ex.siteMu.Lock()
		in.Ex.SiteStats[site]++
		in.Ex.siteMu.Unlock()
	}
	rt := in.S.CheckWith(c)
	in.Res.Queries++
	if rt == sym.Unsat {
		in.trace = append(in.trace, Decision{V: 0, N: 2, Kind: 'b'})
		in.assertPC(in.F.Not(c))
		return false
	}
	nc := in.F.Not(c)
	rf := in.S.CheckWith(nc)
	in.Res.Queries++
	if rt == sym.Unknown || rf == sym.Unknown {
		in.Res.Unknowns++
		if in.Ex.Verbose {
			fmt.Fprintf(os.Stderr, "UNKNOWN branch (%v/%v) cond=%s @ %s\n", rt, rf, c, in.stack())
		}
	}
	if rf == sym.Unsat {
		in.trace = append(in.trace, Decision{V: 1, N: 2, Kind: 'b'})
		in.assertPC(c)
		return true
	}
	// both feasible (or unknown): fork
	alt := append(append([]Decision{}, in.trace...), Decision{V: 0, N: 2, Kind: 'b'})
	in.forks = append(in.forks, alt)
	in.trace = append(in.trace, Decision{V: 1, N: 2, Kind: 'b'})
	in.assertPC(c)
	return true
}

// BranchLikely is Branch for conditions expected to hold: it asks for the negation
// first, so the common case costs one query.
func (in *Interp) BranchLikely(c *sym.Term) bool {
	return !in.Branch(in.F.Not(c))
}

// Choose forks n ways.
func (in *Interp) Choose(tag string, n int) int {
	if n <= 0 {
		in.fail("unsupported", "Choose with n<=0")
	}
	if n == 1 {
		return 0
	}
	v, ok := in.takeDecision(n, 'c')
	if !ok {
		for k := n - 1; k >= 1; k-- {
			alt := append(append([]Decision{}, in.trace...), Decision{V: k, N: n, Kind: 'c'})
			in.forks = append(in.forks, alt)
		}
		in.trace = append(in.trace, Decision{V: 0, N: n, Kind: 'c'})
		v = 0
	}
	if tag != "" {
		in.choiceLog = append(in.choiceLog, ChoiceRec{tag, v, n})
	}
	return v
}

// Concretize forces an Int term to a concrete value, forking over its feasible values.
func (in *Interp) Concretize(t *sym.Term) int64 {
	for {
		if t.IsConst() {
			if !t.I.IsInt64() {
				in.fail("unsupported", "concretize: constant out of int64")
			}
			return t.I.Int64()
		}
		if len(in.trace) < len(in.prefix) {
			d := in.prefix[len(in.trace)]
			if d.Kind != 'v' {
				in.fail("unsupported", "non-deterministic replay at concretize")
			}
			in.trace = append(in.trace, d)
			v, _ := new(big.Int).SetString(d.Val, 10)
			eq := in.F.Eq(t, in.F.BigInt(v))
			if d.V == 1 {
				in.assertPC(eq)
				return v.Int64()
			}
			in.assertPC(in.F.Not(eq))
			continue
		}
		in.S.Push()
		r := in.S.Check()
		in.Res.Queries++
		if r != sym.Sat {
			in.S.Pop()
			if r == sym.Unsat {
				in.fail("infeasible", "")
			}
			in.fail("unknown", "concretize: solver unknown")
		}
		v := in.S.EvalInt(t)
		in.S.Pop()
		if v == nil {
			in.fail("unknown", "concretize: no value")
		}
		if !v.IsInt64() {
			in.fail("unsupported", "concretize: value out of int64")
		}
		eq := in.F.Eq(t, in.F.BigInt(v))
		rn := in.S.CheckWith(in.F.Not(eq))
		in.Res.Queries++
		if rn != sym.Unsat {
			alt := append(append([]Decision{}, in.trace...), Decision{V: 0, N: 2, Kind: 'v', Val: v.String()})
			in.forks = append(in.forks, alt)
		}
		in.trace = append(in.trace, Decision{V: 1, N: 2, Kind: 'v', Val: v.String()})
		in.assertPC(eq)
		return v.Int64()
	}
}

// ---- globals and init ----

func (in *Interp) globalCell(g *ssa.Global) *Cell {
	if c, ok := in.globals[g]; ok {
		return c
	}
	et := g.Type().(*types.Pointer).Elem()
	// make sure the owning package is initialised if it is one we interpret
	if g.Pkg != nil && !in.inited[g.Pkg] && in.Ex.shouldInit(g.Pkg) {
		in.initPackage(g.Pkg)
		if c, ok := in.globals[g]; ok {
			return c
		}
	}
	c := in.newCell(et, in.zero(et))
	in.globals[g] = c
	if g.Pkg != nil && !in.Ex.shouldInit(g.Pkg) {
		// sentinel values of library packages
		if isErrorType(et) {
			name := g.Pkg.Pkg.Path() + "." + g.Name()
			c.V = in.sentinelError(name)
		} else if gi := in.Ex.globalInit[g.Pkg.Pkg.Path()+"."+g.Name()]; gi != nil {
			gi(in, c)
		}
	}
	return c
}

func isErrorType(t types.Type) bool {
	n, ok := t.(*types.Named)
	return ok && n.Obj().Pkg() == nil && n.Obj().Name() == "error"
}

// workerCache holds per-worker state that survives across paths: the term factory
// and the (concrete, frozen) results of repo package initialisers.
type workerCache struct {
	F     *sym.Factory
	inits map[*ssa.Package]map[*ssa.Global]*Cell
	paths int
}

func (in *Interp) restoreInit(p *ssa.Package) bool {
	if in.wc == nil || in.Ex.NoInitCache {
		return false
	}
	gm, ok := in.wc.inits[p]
	if !ok {
		return false
	}
	for g, c := range gm {
		if _, have := in.globals[g]; have {
			continue
		}
		in.globals[g] = in.thawTop(c)
	}
	return true
}

// thawTop copies a cached top-level global cell (its content stays shared+frozen).
func (in *Interp) thawTop(c *Cell) *Cell {
	n := &Cell{T: c.T, Agg: c.Agg, V: c.V, Big: c.Big, Tag: c.Tag, Ext: c.Ext}
	if c.Elems != nil {
		n.Elems = make([]*Cell, len(c.Elems))
		for i, e := range c.Elems {
			n.Elems[i] = in.thawTop(e)
		}
	}
	return n
}

func (in *Interp) freezeValue(v Value, seen map[interface{}]bool) {
	switch x := v.(type) {
	case *Cell:
		if x == nil || seen[x] {
			return
		}
		seen[x] = true
		x.Frozen = true
		if x.Elems != nil {
			for _, e := range x.Elems {
				in.freezeValue(e, seen)
			}
		} else if x.V != nil {
			in.freezeValue(x.V, seen)
		}
	case *StructVal:
		if x != nil {
			for _, f := range x.F {
				in.freezeValue(f, seen)
			}
		}
	case *ArrayVal:
		if x != nil {
			for _, e := range x.E {
				in.freezeValue(e, seen)
			}
		}
	case SliceVal:
		if x.Arr != nil {
			in.freezeValue(x.Arr, seen)
		}
	case *MapVal:
		if x == nil || seen[x] {
			return
		}
		seen[x] = true
		x.Frozen = true
		for _, e := range x.E {
			in.freezeValue(e.K, seen)
			in.freezeValue(e.V, seen)
		}
	case IfaceVal:
		in.freezeValue(x.V, seen)
	case *Closure:
		if x != nil {
			for _, b := range x.Bind {
				in.freezeValue(b, seen)
			}
		}
	case TupleVal:
		for _, e := range x {
			in.freezeValue(e, seen)
		}
	}
}

func (in *Interp) initPackage(p *ssa.Package) {
	if in.inited[p] {
		return
	}
	in.inited[p] = true
	if in.restoreInit(p) {
		return
	}
	cacheable := in.wc != nil && !in.Ex.NoInitCache && len(in.trace) == 0 && len(in.inputs) == 0
	var before map[*ssa.Global]bool
	if cacheable {
		before = map[*ssa.Global]bool{}
		for g := range in.globals {
			before[g] = true
		}
	}
	defer func() {
		if !cacheable {
			return
		}
		gm := map[*ssa.Global]*Cell{}
		seen := map[interface{}]bool{}
		for g, c := range in.globals {
			if before[g] || g.Pkg != p {
				continue
			}
			// freeze what the cell refers to; keep a pristine copy of the top-level cell
			cp := in.thawTop(c)
			if c.Elems != nil {
				for _, e := range c.Elems {
					_ = e
				}
			}
			in.freezeContent(c, seen)
			gm[g] = cp
		}
		in.wc.inits[p] = gm
	}()
	if initfn := p.Func("init"); initfn != nil {
		saved := in.initRoot
		in.initRoot = p
		st0 := in.steps
		in.call(initfn, nil, nil)
		in.initRoot = saved
		if in.Ex.Verbose && os.Getenv("GOSYM_INITLOG") != "" {
			fmt.Fprintf(os.Stderr, "init %s: %d steps\n", p.Pkg.Path(), in.steps-st0)
		}
	}
}

// freezeContent freezes everything reachable from a top-level global cell but not
// the cell (and its own sub-cells) itself, which is copied per path.
func (in *Interp) freezeContent(c *Cell, seen map[interface{}]bool) {
	if c.Elems != nil {
		for _, e := range c.Elems {
			in.freezeContent(e, seen)
		}
		return
	}
	if c.V != nil {
		in.freezeValue(c.V, seen)
	}
}

// ---- calls ----

func (in *Interp) call(fn *ssa.Function, args []Value, bind []Value) Value {
	if fn == nil {
		panic(goPanic{msg: "call of nil function"})
	}
	if fn.Synthetic != "" && fn.Pkg != nil && strings.HasPrefix(fn.Synthetic, "package initializer") && !in.Ex.shouldInit(fn.Pkg) {
		return nil
	}
	if fn.Pkg != nil && strings.HasPrefix(fn.Name(), "init#") && in.Ex.SkipInitFuncs[fn.Pkg.Pkg.Path()] {
		return nil // explicit init() functions of this package are not part of any property (CLI wiring)
	}
	name := fn.String()
	if st, ok := in.stubs[name]; ok {
		return in.callValue(st, args)
	}
	if ic := in.Ex.lookupIntercept(fn, name); ic != nil {
		return ic(in, fn, args)
	}
	if fn.Blocks == nil {
		in.fail("unsupported", "external function without body: "+name)
	}
	if fn.Synthetic != "" && strings.HasPrefix(fn.Synthetic, "package initializer") {
		if fn.Pkg != nil && !in.Ex.shouldInit(fn.Pkg) {
			return nil
		}
		if fn.Pkg != nil {
			// lazy: a package is initialised when one of its globals is first touched
			// (repo package initialisers are pure table builders)
			if in.curFrame != nil && in.initRoot != fn.Pkg {
				return nil
			}
			in.inited[fn.Pkg] = true
		}
	}
	in.Ex.noteFunc(fn)
	in.depth++
	if in.depth > 400 {
		in.fail("unsupported", "call depth exceeded in "+name)
	}
	defer func() { in.depth-- }()
	return in.callFunction(fn, args, bind)
}

func (in *Interp) callFunction(fn *ssa.Function, args []Value, bind []Value) (ret Value) {
	info := infoFor(fn)
	fr := &frame{fn: fn, info: info, locals: make([]Value, info.n), caller: in.curFrame}
	if len(args) != len(fn.Params) {
		in.fail("unsupported", fmt.Sprintf("arity mismatch calling %s: %d vs %d", fn, len(args), len(fn.Params)))
	}
	for i := range fn.Params {
		fr.locals[i] = args[i]
	}
	for i := range fn.FreeVars {
		fr.locals[len(fn.Params)+i] = bind[i]
	}
	saved := in.curFrame
	in.curFrame = fr
	defer func() {
		in.curFrame = saved
		if r := recover(); r != nil {
			gp, ok := r.(goPanic)
			if !ok {
				panic(r)
			}
			fr.panicking = &gp
			in.runDefers(fr)
			if fr.panicking != nil {
				panic(*fr.panicking)
			}
			if fn.Recover != nil {
				in.curFrame = fr
				ret = in.runBlocks(fr, fn.Recover)
				in.curFrame = saved
			} else {
				ret = in.zeroResults(fn)
			}
		}
	}()
	return in.runBlocks(fr, fn.Blocks[0])
}

func (in *Interp) zeroResults(fn *ssa.Function) Value {
	res := fn.Signature.Results()
	switch res.Len() {
	case 0:
		return nil
	case 1:
		return in.zero(res.At(0).Type())
	}
	return in.zero(res)
}

func (in *Interp) runDefers(fr *frame) {
	for len(fr.defers) > 0 {
		d := fr.defers[len(fr.defers)-1]
		fr.defers = fr.defers[:len(fr.defers)-1]
		func() {
			in.deferStack = append(in.deferStack, fr)
			defer func() {
				in.deferStack = in.deferStack[:len(in.deferStack)-1]
				if r := recover(); r != nil {
					gp, ok := r.(goPanic)
					if !ok {
						panic(r)
					}
					fr.panicking = &gp
				}
			}()
			if d.meth != nil {
				in.invoke(*d.recv, d.meth, d.args)
			} else {
				in.callValue(d.fn, d.args)
			}
		}()
	}
}

func (in *Interp) callValue(fv Value, args []Value) Value {
	switch f := fv.(type) {
	case *ssa.Function:
		return in.call(f, args, nil)
	case *Closure:
		if f == nil {
			panic(goPanic{msg: "runtime error: invalid memory address or nil pointer dereference (nil func)"})
		}
		return in.call(f.Fn, args, f.Bind)
	case *ssa.Builtin:
		return in.builtin(f, args, nil)
	case NativeFunc:
		return f(in, args)
	}
	in.fail("unsupported", fmt.Sprintf("call of %T", fv))
	return nil
}

type NativeFunc func(in *Interp, args []Value) Value

func (in *Interp) invoke(recv IfaceVal, m *types.Func, args []Value) Value {
	if recv.T == nil {
		panic(goPanic{msg: "runtime error: invalid memory address or nil pointer dereference (nil interface method call " + m.Name() + ")"})
	}
	if nf, ok := recv.V.(*NativeObj); ok {
		return nf.Call(in, m.Name(), args)
	}
	sel := in.Prog.MethodSets.MethodSet(recv.T).Lookup(m.Pkg(), m.Name())
	if sel == nil {
		in.fail("unsupported", fmt.Sprintf("method %s not found on %s", m.Name(), recv.T))
	}
	fn := in.Prog.MethodValue(sel)
	if fn == nil {
		in.fail("unsupported", fmt.Sprintf("abstract method %s on %s", m.Name(), recv.T))
	}
	return in.call(fn, append([]Value{recv.V}, args...), nil)
}

// NativeObj is a dynamic value implemented by the engine (sql.Result etc.).
type NativeObj struct {
	Kind string
	Call func(in *Interp, method string, args []Value) Value
	Data interface{}
}

// ---- block execution ----

func (in *Interp) get(fr *frame, v ssa.Value) Value {
	switch x := v.(type) {
	case *ssa.Const:
		return in.constVal(x)
	case *ssa.Global:
		return in.globalCell(x)
	case *ssa.Function:
		return x
	case *ssa.Builtin:
		return x
	}
	idx, ok := fr.info.index[v]
	if !ok {
		in.fail("unsupported", fmt.Sprintf("unknown ssa value %s (%T) in %s", v.Name(), v, fr.fn))
	}
	return fr.locals[idx]
}

func (in *Interp) set(fr *frame, v ssa.Value, val Value) {
	fr.locals[fr.info.index[v]] = val
}

func (in *Interp) constVal(c *ssa.Const) Value {
	t := c.Type()
	if c.Value == nil {
		return in.zero(t)
	}
	switch u := t.Underlying().(type) {
	case *types.Basic:
		switch {
		case u.Info()&types.IsInteger != 0:
			if v, ok := constant.Int64Val(constant.ToInt(c.Value)); ok {
				return in.F.Int(v)
			}
			b, _ := new(big.Int).SetString(constant.ToInt(c.Value).ExactString(), 10)
			return in.F.BigInt(b)
		case u.Info()&types.IsBoolean != 0:
			return in.F.Bool(constant.BoolVal(c.Value))
		case u.Info()&types.IsString != 0:
			return constant.StringVal(c.Value)
		case u.Info()&types.IsFloat != 0:
			f, _ := constant.Float64Val(constant.ToFloat(c.Value))
			return FloatVal{F: f, Known: true}
		}
	}
	in.fail("unsupported", "constant of type "+t.String())
	return nil
}

func (in *Interp) runBlocks(fr *frame, b *ssa.BasicBlock) Value {
	fr.block = b
	for {
		var next *ssa.BasicBlock
		for _, ins := range fr.block.Instrs {
			in.steps++
			if in.steps > in.Ex.MaxSteps {
				in.fail("bound", "step limit exceeded")
			}
			switch x := ins.(type) {
			case *ssa.Phi:
				for i, p := range fr.block.Preds {
					if p == fr.prev {
						in.set(fr, x, in.get(fr, x.Edges[i]))
						break
					}
				}
			case *ssa.Jump:
				next = fr.block.Succs[0]
			case *ssa.If:
				c := in.get(fr, x.Cond).(*sym.Term)
				if in.Branch(c) {
					next = fr.block.Succs[0]
				} else {
					next = fr.block.Succs[1]
				}
			case *ssa.Return:
				switch len(x.Results) {
				case 0:
					return nil
				case 1:
					return in.get(fr, x.Results[0])
				}
				tv := make(TupleVal, len(x.Results))
				for i, r := range x.Results {
					tv[i] = in.get(fr, r)
				}
				return tv
			case *ssa.RunDefers:
				in.runDefers(fr)
				if fr.panicking != nil {
					panic(*fr.panicking)
				}
			case *ssa.Panic:
				v := in.get(fr, x.X)
				panic(goPanic{val: v})
			default:
				in.exec(fr, ins)
			}
			if next != nil {
				break
			}
		}
		if next == nil {
			in.fail("unsupported", "block fell through in "+fr.fn.String())
		}
		fr.prev = fr.block
		fr.block = next
	}
}

func (in *Interp) exec(fr *frame, ins ssa.Instruction) {
	switch x := ins.(type) {
	case *ssa.DebugRef:
	case *ssa.Alloc:
		et := x.Type().(*types.Pointer).Elem()
		in.set(fr, x, in.newCell(et, in.zero(et)))
	case *ssa.BinOp:
		in.set(fr, x, in.binop(x.Op, in.get(fr, x.X), in.get(fr, x.Y), x.X.Type()))
	case *ssa.UnOp:
		in.set(fr, x, in.unop(x, in.get(fr, x.X)))
	case *ssa.Call:
		in.set(fr, x, in.doCall(fr, &x.Call))
	case *ssa.ChangeInterface:
		in.set(fr, x, in.get(fr, x.X))
	case *ssa.ChangeType:
		in.set(fr, x, in.get(fr, x.X))
	case *ssa.Convert:
		in.set(fr, x, in.convert(in.get(fr, x.X), x.X.Type(), x.Type()))
	case *ssa.MultiConvert:
		in.set(fr, x, in.convert(in.get(fr, x.X), x.X.Type(), x.Type()))
	case *ssa.Defer:
		d := deferred{}
		for _, a := range x.Call.Args {
			d.args = append(d.args, in.get(fr, a))
		}
		if x.Call.IsInvoke() {
			rv := in.get(fr, x.Call.Value).(IfaceVal)
			d.recv = &rv
			d.meth = x.Call.Method
		} else {
			d.fn = in.get(fr, x.Call.Value)
		}
		fr.defers = append(fr.defers, d)
	case *ssa.Extract:
		in.set(fr, x, in.get(fr, x.Tuple).(TupleVal)[x.Index])
	case *ssa.Field:
		sv := in.get(fr, x.X).(*StructVal)
		in.set(fr, x, copyValue(sv.F[x.Field]))
	case *ssa.FieldAddr:
		c := in.get(fr, x.X).(*Cell)
		if c == nil {
			panic(goPanic{msg: "runtime error: invalid memory address or nil pointer dereference"})
		}
		in.ensureAgg(c)
		in.set(fr, x, c.Elems[x.Field])
	case *ssa.Index:
		in.set(fr, x, in.index(in.get(fr, x.X), in.get(fr, x.Index), x.X.Type()))
	case *ssa.IndexAddr:
		in.set(fr, x, in.indexAddr(in.get(fr, x.X), in.get(fr, x.Index)))
	case *ssa.Lookup:
		in.set(fr, x, in.lookup(in.get(fr, x.X), in.get(fr, x.Index), x))
	case *ssa.MakeClosure:
		c := &Closure{Fn: x.Fn.(*ssa.Function)}
		for _, b := range x.Bindings {
			c.Bind = append(c.Bind, in.get(fr, b))
		}
		in.set(fr, x, c)
	case *ssa.MakeInterface:
		in.set(fr, x, IfaceVal{T: x.X.Type(), V: in.get(fr, x.X)})
	case *ssa.MakeMap:
		mt := x.Type().Underlying().(*types.Map)
		in.set(fr, x, &MapVal{KT: mt.Key(), VT: mt.Elem()})
	case *ssa.MakeSlice:
		n := int(in.Concretize(in.get(fr, x.Len).(*sym.Term)))
		cp := int(in.Concretize(in.get(fr, x.Cap).(*sym.Term)))
		if n < 0 || cp < n || cp > 1<<20 {
			panic(goPanic{msg: "runtime error: makeslice: len out of range"})
		}
		et := x.Type().Underlying().(*types.Slice).Elem()
		in.set(fr, x, in.makeSlice(et, n, cp))
	case *ssa.MakeChan:
		n := int(in.Concretize(in.get(fr, x.Size).(*sym.Term)))
		in.set(fr, x, in.makeChan(x.Type().Underlying().(*types.Chan).Elem(), n))
	case *ssa.MapUpdate:
		m := in.get(fr, x.Map).(*MapVal)
		in.mapUpdate(m, in.get(fr, x.Key), in.get(fr, x.Value))
	case *ssa.Next:
		in.set(fr, x, in.iterNext(in.get(fr, x.Iter).(*MapIter), x))
	case *ssa.Range:
		in.set(fr, x, in.makeIter(in.get(fr, x.X)))
	case *ssa.Slice:
		in.set(fr, x, in.sliceOp(fr, x))
	case *ssa.Store:
		c := in.get(fr, x.Addr).(*Cell)
		if c == nil {
			panic(goPanic{msg: "runtime error: invalid memory address or nil pointer dereference"})
		}
		in.storeInto(c, x.Val.Type(), copyValue(in.get(fr, x.Val)))
	case *ssa.TypeAssert:
		in.set(fr, x, in.typeAssert(x, in.get(fr, x.X)))
	case *ssa.SliceToArrayPointer:
		sv := in.get(fr, x.X).(SliceVal)
		at := x.Type().(*types.Pointer).Elem().Underlying().(*types.Array)
		if sv.Len < int(at.Len()) {
			panic(goPanic{msg: "runtime error: cannot convert slice to array pointer"})
		}
		in.ensureAgg(sv.Arr)
		nc := &Cell{T: at, Agg: true, Elems: sv.Arr.Elems[sv.Off : sv.Off+int(at.Len())]}
		in.set(fr, x, nc)
	case *ssa.Select:
		in.fail("unsupported", "select in "+fr.fn.String())
	case *ssa.Go:
		if x.Call.IsInvoke() {
			in.fail("unsupported", "go with an interface method call in "+fr.fn.String())
		}
		args := make([]Value, len(x.Call.Args))
		for i, a := range x.Call.Args {
			args[i] = copyValue(in.get(fr, a))
		}
		in.goStart(in.get(fr, x.Call.Value), args)
	case *ssa.Send:
		in.chanSend(in.get(fr, x.Chan), in.get(fr, x.X))
	default:
		in.fail("unsupported", fmt.Sprintf("instruction %T in %s", ins, fr.fn))
	}
}


func (in *Interp) doCall(fr *frame, cc *ssa.CallCommon) Value {
	args := make([]Value, 0, len(cc.Args)+1)
	if cc.IsInvoke() {
		recv, ok := in.get(fr, cc.Value).(IfaceVal)
		if !ok {
			in.fail("unsupported", fmt.Sprintf("invoke on %T", in.get(fr, cc.Value)))
		}
		for _, a := range cc.Args {
			args = append(args, in.get(fr, a))
		}
		return in.invoke(recv, cc.Method, args)
	}
	for _, a := range cc.Args {
		args = append(args, in.get(fr, a))
	}
	switch f := cc.Value.(type) {
	case *ssa.Builtin:
		return in.builtin(f, args, cc)
	case *ssa.Function:
		return in.call(f, args, nil)
	}
	return in.callValue(in.get(fr, cc.Value), args)
}

func (in *Interp) typeAssert(x *ssa.TypeAssert, v Value) Value {
	iv, ok := v.(IfaceVal)
	if !ok {
		in.fail("unsupported", fmt.Sprintf("type assert on %T", v))
	}
	okv := false
	var res Value
	if iv.T != nil {
		if types.IsInterface(x.AssertedType) {
			it := x.AssertedType.Underlying().(*types.Interface)
			if _, isNative := iv.V.(*NativeObj); isNative {
				okv = true
			} else {
				okv = types.Implements(iv.T, it)
			}
			res = iv
		} else {
			okv = types.Identical(iv.T, x.AssertedType)
			res = iv.V
		}
	}
	if !okv {
		if types.IsInterface(x.AssertedType) {
			res = IfaceVal{}
		} else {
			res = in.zero(x.AssertedType)
		}
	}
	if x.CommaOk {
		return TupleVal{res, in.F.Bool(okv)}
	}
	if !okv {
		panic(goPanic{msg: fmt.Sprintf("interface conversion: interface is %v, not %v", iv.T, x.AssertedType)})
	}
	return res
}

func (in *Interp) pos(fr *frame, ins ssa.Instruction) token.Position {
	return in.Prog.Fset.Position(ins.Pos())
}
