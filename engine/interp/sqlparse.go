package interp

import (
	"fmt"
	"strconv"
	"strings"
	"sync"
)

// ---- SQL subset parser (the statements pegnetd issues) ----

type sqlTok struct {
	k string // "id", "num", "str", "param", "op", "kw", "eof"
	v string
}

var sqlKeywords = map[string]bool{
	"SELECT": true, "FROM": true, "WHERE": true, "INSERT": true, "INTO": true, "VALUES": true, "UPDATE": true,
	"SET": true, "DELETE": true, "CREATE": true, "TABLE": true, "IF": true, "NOT": true, "EXISTS": true,
	"NULL": true, "PRIMARY": true, "KEY": true, "UNIQUE": true, "DEFAULT": true, "CONSTRAINT": true, "CHECK": true,
	"FOREIGN": true, "REFERENCES": true, "ON": true, "CONFLICT": true, "DO": true, "NOTHING": true, "REPLACE": true,
	"AND": true, "OR": true, "ORDER": true, "BY": true, "ASC": true, "DESC": true, "LIMIT": true, "OFFSET": true,
	"AS": true, "INNER": true, "JOIN": true, "IN": true, "IS": true, "INDEX": true, "GROUP": true, "DISTINCT": true,
	"CASE": true, "WHEN": true, "THEN": true, "ELSE": true, "END": true, "TRUE": true, "FALSE": true, "BEGIN": true,
	"COMMIT": true, "ALTER": true, "DROP": true, "TRANSACTION": true, "LEFT": true, "OUTER": true, "CROSS": true,
}

func sqlLex(s string) ([]sqlTok, error) {
	var toks []sqlTok
	i := 0
	for i < len(s) {
		c := s[i]
		switch {
		case c == ' ' || c == '\t' || c == '\n' || c == '\r':
			i++
		case c == '-' && i+1 < len(s) && s[i+1] == '-':
			for i < len(s) && s[i] != '\n' {
				i++
			}
		case c == '"' || c == '`':
			j := i + 1
			for j < len(s) && s[j] != c {
				j++
			}
			if j >= len(s) {
				return nil, fmt.Errorf("unterminated identifier")
			}
			toks = append(toks, sqlTok{"id", s[i+1 : j]})
			i = j + 1
		case c == '\'':
			j := i + 1
			var sb strings.Builder
			for j < len(s) {
				if s[j] == '\'' {
					if j+1 < len(s) && s[j+1] == '\'' {
						sb.WriteByte('\'')
						j += 2
						continue
					}
					break
				}
				sb.WriteByte(s[j])
				j++
			}
			if j >= len(s) {
				return nil, fmt.Errorf("unterminated string")
			}
			toks = append(toks, sqlTok{"str", sb.String()})
			i = j + 1
		case c >= '0' && c <= '9':
			j := i
			for j < len(s) && (s[j] >= '0' && s[j] <= '9') {
				j++
			}
			toks = append(toks, sqlTok{"num", s[i:j]})
			i = j
		case c == '?':
			toks = append(toks, sqlTok{"param", ""})
			i++
		case c == '$':
			j := i + 1
			for j < len(s) && (s[j] >= '0' && s[j] <= '9') {
				j++
			}
			toks = append(toks, sqlTok{"param", s[i+1 : j]})
			i = j
		case (c >= 'a' && c <= 'z') || (c >= 'A' && c <= 'Z') || c == '_':
			j := i
			for j < len(s) && ((s[j] >= 'a' && s[j] <= 'z') || (s[j] >= 'A' && s[j] <= 'Z') || s[j] == '_' || (s[j] >= '0' && s[j] <= '9')) {
				j++
			}
			w := s[i:j]
			if sqlKeywords[strings.ToUpper(w)] {
				toks = append(toks, sqlTok{"kw", strings.ToUpper(w)})
			} else {
				toks = append(toks, sqlTok{"id", w})
			}
			i = j
		default:
			for _, op := range []string{"==", "!=", "<>", "<=", ">=", "||"} {
				if strings.HasPrefix(s[i:], op) {
					toks = append(toks, sqlTok{"op", op})
					i += 2
					goto next
				}
			}
			if strings.ContainsRune("=<>+-*/(),.;%", rune(c)) {
				toks = append(toks, sqlTok{"op", string(c)})
				i++
			} else {
				return nil, fmt.Errorf("unexpected character %q", c)
			}
		next:
		}
	}
	toks = append(toks, sqlTok{"eof", ""})
	return toks, nil
}

// AST
type sqlExpr struct {
	k     string // "lit-int","lit-str","null","param","col","bin","un","func","in","isnull","subq","star","bool"
	s     string // operator / name / literal
	tbl   string // qualifier for col
	n     int    // param index (0-based) / literal int via s
	args  []*sqlExpr
	sub   *sqlSelect
	neg   bool
	alias string
}

type sqlFrom struct {
	table string
	alias string
	arg   string
}

type sqlOrder struct {
	e    *sqlExpr
	desc bool
}

type sqlSelect struct {
	distinct bool
	cols    []*sqlExpr
	from    []sqlFrom
	where   *sqlExpr
	groupBy []*sqlExpr
	order   []sqlOrder
	limit   *sqlExpr
	offset  *sqlExpr
}

type sqlColDef struct {
	name    string
	typ     string
	notNull bool
	pk      bool
	unique  bool
	def     *sqlExpr
	checks  []*sqlExpr
}

type sqlStmt struct {
	k          string // "create","insert","update","delete","select","skip"
	table      string
	cols       []string
	colDefs    []sqlColDef
	uniques    [][]string
	pkCols     []string
	tblChecks  []*sqlExpr
	values     []*sqlExpr
	sel        *sqlSelect
	orReplace  bool
	conflict   string // "", "nothing", "update"
	conflictOn []string
	sets       []sqlSet
	where      *sqlExpr
	nparams    int
	text       string
}

type sqlSet struct {
	col string
	e   *sqlExpr
}

type sqlParser struct {
	toks   []sqlTok
	p      int
	nparam int
}

func (ps *sqlParser) peek() sqlTok { return ps.toks[ps.p] }
func (ps *sqlParser) next() sqlTok {
	t := ps.toks[ps.p]
	if ps.p < len(ps.toks)-1 {
		ps.p++
	}
	return t
}
func (ps *sqlParser) isKw(k string) bool { t := ps.peek(); return t.k == "kw" && t.v == k }
func (ps *sqlParser) isOp(o string) bool { t := ps.peek(); return t.k == "op" && t.v == o }
func (ps *sqlParser) acceptKw(k string) bool {
	if ps.isKw(k) {
		ps.next()
		return true
	}
	return false
}
func (ps *sqlParser) acceptOp(o string) bool {
	if ps.isOp(o) {
		ps.next()
		return true
	}
	return false
}
func (ps *sqlParser) expectKw(k string) {
	if !ps.acceptKw(k) {
		panic(fmt.Errorf("sql: expected %s, got %q", k, ps.peek().v))
	}
}
func (ps *sqlParser) expectOp(o string) {
	if !ps.acceptOp(o) {
		panic(fmt.Errorf("sql: expected %q, got %q (%s)", o, ps.peek().v, ps.peek().k))
	}
}
func (ps *sqlParser) ident() string {
	t := ps.next()
	if t.k != "id" && t.k != "kw" {
		panic(fmt.Errorf("sql: identifier expected, got %q", t.v))
	}
	return t.v
}

var sqlCache sync.Map

// parseSQL parses a script (possibly several ;-separated statements).
func parseSQL(text string) (stmts []*sqlStmt, err error) {
	if v, ok := sqlCache.Load(text); ok {
		r := v.([]*sqlStmt)
		return r, nil
	}
	defer func() {
		if r := recover(); r != nil {
			if e, ok := r.(error); ok {
				err = e
				return
			}
			panic(r)
		}
	}()
	toks, lerr := sqlLex(text)
	if lerr != nil {
		return nil, lerr
	}
	ps := &sqlParser{toks: toks}
	for ps.peek().k != "eof" {
		if ps.acceptOp(";") {
			continue
		}
		ps.nparam = 0
		st := ps.statement()
		st.nparams = ps.nparam
		st.text = text
		stmts = append(stmts, st)
	}
	sqlCache.Store(text, stmts)
	return stmts, nil
}

func (ps *sqlParser) skipStatement() *sqlStmt {
	for ps.peek().k != "eof" && !ps.isOp(";") {
		ps.next()
	}
	return &sqlStmt{k: "skip"}
}

func (ps *sqlParser) statement() *sqlStmt {
	switch {
	case ps.isKw("CREATE"):
		ps.next()
		if ps.acceptKw("UNIQUE") {
		}
		if ps.isKw("INDEX") {
			return ps.skipStatement()
		}
		ps.expectKw("TABLE")
		if ps.acceptKw("IF") {
			ps.expectKw("NOT")
			ps.expectKw("EXISTS")
		}
		return ps.createTable()
	case ps.isKw("DROP"):
		ps.next()
		ps.expectKw("TABLE")
		if ps.acceptKw("IF") {
			ps.expectKw("EXISTS")
		}
		return &sqlStmt{k: "drop", table: ps.ident()}
	case ps.isKw("INSERT"), ps.isKw("REPLACE"):
		return ps.insert()
	case ps.isKw("UPDATE"):
		return ps.update()
	case ps.isKw("DELETE"):
		ps.next()
		ps.expectKw("FROM")
		st := &sqlStmt{k: "delete", table: ps.ident()}
		if ps.acceptKw("WHERE") {
			st.where = ps.expr()
		}
		return st
	case ps.isKw("SELECT"):
		return &sqlStmt{k: "select", sel: ps.selectStmt()}
	}
	panic(fmt.Errorf("sql: unsupported statement starting with %q", ps.peek().v))
}

func (ps *sqlParser) createTable() *sqlStmt {
	st := &sqlStmt{k: "create", table: ps.ident()}
	ps.expectOp("(")
	for {
		switch {
		case ps.isKw("UNIQUE"):
			ps.next()
			st.uniques = append(st.uniques, ps.identList())
		case ps.isKw("PRIMARY"):
			ps.next()
			ps.expectKw("KEY")
			st.pkCols = ps.identList()
			st.uniques = append(st.uniques, st.pkCols)
		case ps.isKw("FOREIGN"):
			ps.next()
			ps.expectKw("KEY")
			ps.identList()
			ps.expectKw("REFERENCES")
			ps.ident()
			if ps.isOp("(") {
				ps.identList()
			}
		case ps.isKw("CHECK"):
			ps.next()
			ps.expectOp("(")
			st.tblChecks = append(st.tblChecks, ps.expr())
			ps.expectOp(")")
		case ps.isKw("CONSTRAINT"):
			ps.next()
			ps.ident()
			continue
		default:
			cd := sqlColDef{name: ps.ident()}
			if t := ps.peek(); t.k == "id" {
				cd.typ = strings.ToUpper(ps.next().v)
			}
			for !ps.isOp(",") && !ps.isOp(")") {
				switch {
				case ps.acceptKw("NOT"):
					ps.expectKw("NULL")
					cd.notNull = true
				case ps.acceptKw("PRIMARY"):
					ps.expectKw("KEY")
					cd.pk = true
				case ps.acceptKw("UNIQUE"):
					cd.unique = true
				case ps.acceptKw("DEFAULT"):
					cd.def = ps.primary()
				case ps.acceptKw("CONSTRAINT"):
					ps.ident()
				case ps.acceptKw("CHECK"):
					ps.expectOp("(")
					cd.checks = append(cd.checks, ps.expr())
					ps.expectOp(")")
				default:
					panic(fmt.Errorf("sql: unsupported column constraint %q", ps.peek().v))
				}
			}
			st.colDefs = append(st.colDefs, cd)
		}
		if ps.acceptOp(",") {
			continue
		}
		ps.expectOp(")")
		break
	}
	return st
}

func (ps *sqlParser) identList() []string {
	ps.expectOp("(")
	var out []string
	for {
		out = append(out, ps.ident())
		if !ps.acceptOp(",") {
			break
		}
	}
	ps.expectOp(")")
	return out
}

func (ps *sqlParser) insert() *sqlStmt {
	st := &sqlStmt{k: "insert"}
	if ps.acceptKw("REPLACE") {
		st.orReplace = true
	} else {
		ps.expectKw("INSERT")
		if ps.acceptKw("OR") {
			ps.expectKw("REPLACE")
			st.orReplace = true
		}
	}
	ps.expectKw("INTO")
	st.table = ps.ident()
	if ps.isOp("(") {
		st.cols = ps.identList()
	}
	if ps.acceptKw("VALUES") {
		ps.expectOp("(")
		for {
			st.values = append(st.values, ps.expr())
			if !ps.acceptOp(",") {
				break
			}
		}
		ps.expectOp(")")
	} else if ps.isKw("SELECT") {
		st.sel = ps.selectStmt()
	} else {
		panic(fmt.Errorf("sql: VALUES or SELECT expected"))
	}
	if ps.acceptKw("ON") {
		ps.expectKw("CONFLICT")
		if ps.isOp("(") {
			st.conflictOn = ps.identList()
		}
		ps.expectKw("DO")
		if ps.acceptKw("NOTHING") {
			st.conflict = "nothing"
		} else {
			ps.expectKw("UPDATE")
			ps.expectKw("SET")
			st.conflict = "update"
			st.sets = ps.setList()
		}
	}
	return st
}

func (ps *sqlParser) setList() []sqlSet {
	var out []sqlSet
	for {
		c := ps.ident()
		ps.expectOp("=")
		out = append(out, sqlSet{c, ps.expr()})
		if !ps.acceptOp(",") {
			break
		}
	}
	return out
}

func (ps *sqlParser) update() *sqlStmt {
	ps.expectKw("UPDATE")
	st := &sqlStmt{k: "update", table: ps.ident()}
	ps.expectKw("SET")
	st.sets = ps.setList()
	if ps.acceptKw("WHERE") {
		st.where = ps.expr()
	}
	return st
}

func (ps *sqlParser) selectStmt() *sqlSelect {
	ps.expectKw("SELECT")
	sel := &sqlSelect{}
	if ps.acceptKw("DISTINCT") {
		sel.distinct = true
	}
	for {
		if ps.acceptOp("*") {
			sel.cols = append(sel.cols, &sqlExpr{k: "star"})
		} else {
			e := ps.expr()
			if ps.acceptKw("AS") {
				e = &sqlExpr{k: "alias", args: []*sqlExpr{e}, alias: ps.ident()}
			} else if ps.peek().k == "id" {
				e = &sqlExpr{k: "alias", args: []*sqlExpr{e}, alias: ps.ident()}
			}
			sel.cols = append(sel.cols, e)
		}
		if !ps.acceptOp(",") {
			break
		}
	}
	if ps.acceptKw("FROM") {
		for {
			f := sqlFrom{table: ps.ident()}
			if ps.acceptOp("(") { // table-valued function e.g. pragma_table_info('x')
				t := ps.next()
				if t.k != "str" && t.k != "id" {
					panic(fmt.Errorf("sql: table-valued function %s: literal argument expected", f.table))
				}
				f.arg = t.v
				ps.expectOp(")")
			}
			if ps.acceptKw("AS") {
				f.alias = ps.ident()
			} else if ps.peek().k == "id" {
				f.alias = ps.ident()
			}
			sel.from = append(sel.from, f)
			if ps.acceptOp(",") {
				continue
			}
			if ps.acceptKw("INNER") || ps.acceptKw("CROSS") {
				ps.expectKw("JOIN")
				continue
			}
			if ps.acceptKw("JOIN") {
				continue
			}
			break
		}
		if ps.acceptKw("ON") {
			sel.where = ps.expr()
		}
	}
	if ps.acceptKw("WHERE") {
		w := ps.expr()
		if sel.where != nil {
			sel.where = &sqlExpr{k: "bin", s: "AND", args: []*sqlExpr{sel.where, w}}
		} else {
			sel.where = w
		}
	}
	if ps.acceptKw("GROUP") {
		ps.expectKw("BY")
		for {
			sel.groupBy = append(sel.groupBy, ps.expr())
			if !ps.acceptOp(",") {
				break
			}
		}
	}
	if ps.acceptKw("ORDER") {
		ps.expectKw("BY")
		for {
			o := sqlOrder{e: ps.expr()}
			if ps.acceptKw("DESC") {
				o.desc = true
			} else {
				ps.acceptKw("ASC")
			}
			sel.order = append(sel.order, o)
			if !ps.acceptOp(",") {
				break
			}
		}
	}
	if ps.acceptKw("LIMIT") {
		sel.limit = ps.expr()
		if ps.acceptKw("OFFSET") {
			sel.offset = ps.expr()
		}
	}
	return sel
}

// expression precedence: OR < AND < NOT < comparison < additive < multiplicative < unary < primary
func (ps *sqlParser) expr() *sqlExpr { return ps.orExpr() }

func (ps *sqlParser) orExpr() *sqlExpr {
	l := ps.andExpr()
	for ps.acceptKw("OR") {
		r := ps.andExpr()
		l = &sqlExpr{k: "bin", s: "OR", args: []*sqlExpr{l, r}}
	}
	return l
}

func (ps *sqlParser) andExpr() *sqlExpr {
	l := ps.notExpr()
	for ps.acceptKw("AND") {
		r := ps.notExpr()
		l = &sqlExpr{k: "bin", s: "AND", args: []*sqlExpr{l, r}}
	}
	return l
}

func (ps *sqlParser) notExpr() *sqlExpr {
	if ps.acceptKw("NOT") {
		return &sqlExpr{k: "un", s: "NOT", args: []*sqlExpr{ps.notExpr()}}
	}
	return ps.cmpExpr()
}

func (ps *sqlParser) cmpExpr() *sqlExpr {
	l := ps.addExpr()
	for {
		t := ps.peek()
		if t.k == "op" {
			switch t.v {
			case "=", "==", "!=", "<>", "<", "<=", ">", ">=":
				ps.next()
				r := ps.addExpr()
				op := t.v
				if op == "==" {
					op = "="
				}
				if op == "<>" {
					op = "!="
				}
				l = &sqlExpr{k: "bin", s: op, args: []*sqlExpr{l, r}}
				continue
			}
		}
		if ps.isKw("IS") {
			ps.next()
			neg := ps.acceptKw("NOT")
			ps.expectKw("NULL")
			l = &sqlExpr{k: "isnull", args: []*sqlExpr{l}, neg: neg}
			continue
		}
		if ps.isKw("NOT") && ps.toks[ps.p+1].k == "kw" && ps.toks[ps.p+1].v == "IN" {
			ps.next()
			ps.next()
			l = ps.inList(l, true)
			continue
		}
		if ps.acceptKw("IN") {
			l = ps.inList(l, false)
			continue
		}
		return l
	}
}

func (ps *sqlParser) inList(l *sqlExpr, neg bool) *sqlExpr {
	ps.expectOp("(")
	e := &sqlExpr{k: "in", args: []*sqlExpr{l}, neg: neg}
	for {
		e.args = append(e.args, ps.expr())
		if !ps.acceptOp(",") {
			break
		}
	}
	ps.expectOp(")")
	return e
}

func (ps *sqlParser) addExpr() *sqlExpr {
	l := ps.mulExpr()
	for ps.isOp("+") || ps.isOp("-") {
		op := ps.next().v
		r := ps.mulExpr()
		l = &sqlExpr{k: "bin", s: op, args: []*sqlExpr{l, r}}
	}
	return l
}

func (ps *sqlParser) mulExpr() *sqlExpr {
	l := ps.unary()
	for ps.isOp("*") || ps.isOp("/") || ps.isOp("%") {
		op := ps.next().v
		r := ps.unary()
		l = &sqlExpr{k: "bin", s: op, args: []*sqlExpr{l, r}}
	}
	return l
}

func (ps *sqlParser) unary() *sqlExpr {
	if ps.acceptOp("-") {
		return &sqlExpr{k: "un", s: "-", args: []*sqlExpr{ps.unary()}}
	}
	if ps.acceptOp("+") {
		return ps.unary()
	}
	return ps.primary()
}

func (ps *sqlParser) primary() *sqlExpr {
	t := ps.next()
	switch t.k {
	case "num":
		return &sqlExpr{k: "lit-int", s: t.v}
	case "str":
		return &sqlExpr{k: "lit-str", s: t.v}
	case "param":
		idx := ps.nparam
		if t.v != "" {
			n, _ := strconv.Atoi(t.v)
			idx = n - 1
			if n > ps.nparam {
				ps.nparam = n
			}
		} else {
			ps.nparam++
		}
		return &sqlExpr{k: "param", n: idx}
	case "kw":
		switch t.v {
		case "NULL":
			return &sqlExpr{k: "null"}
		case "TRUE":
			return &sqlExpr{k: "lit-int", s: "1"}
		case "FALSE":
			return &sqlExpr{k: "lit-int", s: "0"}
		case "EXISTS":
			ps.expectOp("(")
			sub := ps.selectStmt()
			ps.expectOp(")")
			return &sqlExpr{k: "exists", sub: sub}
		case "REPLACE":
			// function replace() unsupported
		case "CASE":
			e := &sqlExpr{k: "case"}
			for ps.acceptKw("WHEN") {
				c := ps.expr()
				ps.expectKw("THEN")
				v := ps.expr()
				e.args = append(e.args, c, v)
			}
			if ps.acceptKw("ELSE") {
				e.args = append(e.args, ps.expr())
			} else {
				e.args = append(e.args, &sqlExpr{k: "null"})
			}
			ps.expectKw("END")
			return e
		}
		panic(fmt.Errorf("sql: unexpected keyword %s in expression", t.v))
	case "op":
		if t.v == "(" {
			if ps.isKw("SELECT") {
				s := ps.selectStmt()
				ps.expectOp(")")
				return &sqlExpr{k: "subq", sub: s}
			}
			e := ps.expr()
			ps.expectOp(")")
			return e
		}
		panic(fmt.Errorf("sql: unexpected %q in expression", t.v))
	case "id":
		name := t.v
		if ps.acceptOp("(") {
			f := &sqlExpr{k: "func", s: strings.ToUpper(name)}
			if ps.acceptOp("*") {
				f.args = append(f.args, &sqlExpr{k: "star"})
			} else if !ps.isOp(")") {
				ps.acceptKw("DISTINCT")
				for {
					f.args = append(f.args, ps.expr())
					if !ps.acceptOp(",") {
						break
					}
				}
			}
			ps.expectOp(")")
			return f
		}
		if ps.acceptOp(".") {
			col := ps.ident()
			return &sqlExpr{k: "col", s: col, tbl: name}
		}
		return &sqlExpr{k: "col", s: name}
	}
	panic(fmt.Errorf("sql: unexpected token %q", t.v))
}
