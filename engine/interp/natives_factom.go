package interp

import (
	"bytes"
	"crypto/ed25519"
	"crypto/sha256"
	"fmt"
	"go/types"
	"math/big"

	"gosym/sym"

	"golang.org/x/tools/go/ssa"
)

// Native re-implementations of the pure address helpers of the factom library
// (base58check with a 2-byte prefix; RCD-1 hash of an ed25519 key). They are
// validated against the real library by the conformance replays.

const b58 = "123456789ABCDEFGHJKLMNPQRSTUVWXYZabcdefghijkmnopqrstuvwxyz"

func sha256d(b []byte) []byte {
	h := sha256.Sum256(b)
	h = sha256.Sum256(h[:])
	return h[:]
}

func b58encode(b []byte) string {
	x := new(big.Int).SetBytes(b)
	base := big.NewInt(58)
	mod := new(big.Int)
	var out []byte
	for x.Sign() > 0 {
		x.DivMod(x, base, mod)
		out = append(out, b58[mod.Int64()])
	}
	for _, c := range b {
		if c != 0 {
			break
		}
		out = append(out, b58[0])
	}
	for i, j := 0, len(out)-1; i < j; i, j = i+1, j-1 {
		out[i], out[j] = out[j], out[i]
	}
	return string(out)
}

func b58decode(s string) ([]byte, bool) {
	x := new(big.Int)
	base := big.NewInt(58)
	for i := 0; i < len(s); i++ {
		k := bytes.IndexByte([]byte(b58), s[i])
		if k < 0 {
			return nil, false
		}
		x.Mul(x, base)
		x.Add(x, big.NewInt(int64(k)))
	}
	out := x.Bytes()
	for i := 0; i < len(s) && s[i] == b58[0]; i++ {
		out = append([]byte{0}, out...)
	}
	return out, true
}

func faString(payload []byte, prefix [2]byte) string {
	b := append([]byte{prefix[0], prefix[1]}, payload...)
	b = append(b, sha256d(b)[:4]...)
	return b58encode(b)
}

func faParse(s string, prefix [2]byte) ([]byte, error) {
	if len(s) != 52 {
		return nil, fmt.Errorf("invalid length")
	}
	if s[:2] != faString(make([]byte, 32), prefix)[:2] {
		return nil, fmt.Errorf("invalid prefix")
	}
	b, ok := b58decode(s)
	if !ok || len(b) != 38 {
		return nil, fmt.Errorf("invalid format")
	}
	if !bytes.Equal(sha256d(b[:34])[:4], b[34:]) {
		return nil, fmt.Errorf("checksum error")
	}
	return b[2:34], nil
}

func (in *Interp) arrayBytes(v Value) ([]byte, bool) {
	a, ok := v.(*ArrayVal)
	if !ok {
		return nil, false
	}
	out := make([]byte, len(a.E))
	for i, e := range a.E {
		t, ok := e.(*sym.Term)
		if !ok || !t.IsConst() {
			return nil, false
		}
		out[i] = byte(t.I.Int64())
	}
	return out, true
}

func (in *Interp) bytesArray(b []byte) *ArrayVal {
	a := &ArrayVal{E: make([]Value, len(b))}
	for i, c := range b {
		a.E[i] = in.F.Int(int64(c))
	}
	return a
}

func (in *Interp) mustArrayBytes(v Value, what string) []byte {
	b, ok := in.arrayBytes(v)
	if !ok {
		in.fail("unsupported", "symbolic bytes reach "+what)
	}
	return b
}

var faPrefix = [2]byte{0x5f, 0xb1}

func registerFactomNatives(ex *Explorer) {
	I := ex.intercepts
	const fp = "github.com/Factom-Asset-Tokens/factom"
	I["("+fp+".FsAddress).FAAddress"] = func(in *Interp, fn *ssa.Function, a []Value) Value {
		seed := in.mustArrayBytes(a[0], "FsAddress.FAAddress")
		pub := ed25519.NewKeyFromSeed(seed).Public().(ed25519.PublicKey)
		rcd := append([]byte{0x01}, pub...)
		return in.bytesArray(sha256d(rcd))
	}
	I[fp+".NewFAAddress"] = func(in *Interp, fn *ssa.Function, a []Value) Value {
		b, err := faParse(str(a[0]), faPrefix)
		if err != nil {
			return TupleVal{in.bytesArray(make([]byte, 32)), in.newError(err.Error())}
		}
		return TupleVal{in.bytesArray(b), IfaceVal{}}
	}
	I["("+fp+".FAAddress).String"] = func(in *Interp, fn *ssa.Function, a []Value) Value {
		return faString(in.mustArrayBytes(a[0], "FAAddress.String"), faPrefix)
	}
	I["("+fp+".Bytes32).String"] = func(in *Interp, fn *ssa.Function, a []Value) Value {
		return fmt.Sprintf("%x", in.mustArrayBytes(a[0], "Bytes32.String"))
	}
	I["(*"+fp+".Bytes32).String"] = func(in *Interp, fn *ssa.Function, a []Value) Value {
		return fmt.Sprintf("%x", in.mustArrayBytes(in.load(a[0].(*Cell)), "Bytes32.String"))
	}
	I[fp+".NewBytes32"] = func(in *Interp, fn *ssa.Function, a []Value) Value {
		bs := make([]byte, 32)
		s := str(a[0])
		for i := 0; i+1 < len(s) && i/2 < 32; i += 2 {
			var v byte
			fmt.Sscanf(s[i:i+2], "%02x", &v)
			bs[i/2] = v
		}
		rt := fn.Signature.Results().At(0).Type()
		if pt, ok := rt.(*types.Pointer); ok {
			return in.newCell(pt.Elem(), in.bytesArray(bs))
		}
		return in.bytesArray(bs)
	}
}
