package interp

import (
	"strings"
	"reflect"
	"strconv"
	"fmt"
	"go/token"
	"go/types"
	"math"
	"math/big"

	"gosym/sym"

	"golang.org/x/tools/go/ssa"
)

// Opaque blobs: the result of a marshal stub carries the marshalled VALUE instead
// of bytes; the matching unmarshal stub copies it back (round trip assumed).
type blob struct {
	kind string // "json", "entrybin"
	val  Value
	typ  types.Type
	ser  int
}

func (in *Interp) newBlob(kind string, v Value, t types.Type) SliceVal {
	in.varSeq["$blob"]++
	return SliceVal{Ext: &blob{kind: kind, val: copyValue(v), typ: t, ser: in.varSeq["$blob"]}}
}

func (in *Interp) blobToString(s SliceVal) Value {
	in.fail("unsupported", "opaque blob converted to string")
	return nil
}

func (in *Interp) materializeBlob(s *SliceVal) {
	in.fail("unsupported", "bytes of an opaque (stub-marshalled) blob accessed")
}

func (in *Interp) blobLen(s SliceVal) int {
	switch x := s.Ext.(type) {
	case *wsVariant:
		return in.blobLen(x.of) + 1
	case *trailingVariant:
		return in.blobLen(x.of) + 2
	case *jsonDoc:
		return in.jsonDocLen(x)
	case *rawJSON:
		return len(x.text)
	}
	if p, ok := s.Ext.(*extPart); ok {
		if p.kind == "salt" {
			return 10 // decimal unix seconds
		}
		if p.m.rcde[p.idx] {
			return 65
		}
		return 64
	}
	// an encoding is never empty; the exact length is not modelled
	return 2
}

// ---- exact dyadic-rational floats ----
// A symbolic float64 is kept as num/Den with Den a power of two; the value is always exactly
// a double. Results of + - * are computed exactly and then rounded to nearest-even by
// exactFloat (a fork per binade when rounding is possible), so IEEE double arithmetic is
// followed bit for bit and integer reasoning decides comparisons. Division, NaN/Inf,
// subnormals and negative rounded results are unsupported.

var two53 = pow2(53)

func dyadic(c float64) (m *big.Int, e int, ok bool) {
	if c != c || c > 1e300 || c < -1e300 {
		return nil, 0, false
	}
	fr, exp := math.Frexp(c) // c = fr * 2^exp, 0.5 <= |fr| < 1
	mi := int64(fr * (1 << 53))
	m = big.NewInt(mi)
	e = exp - 53
	for m.Sign() != 0 && m.Bit(0) == 0 {
		m.Rsh(m, 1)
		e++
	}
	return m, e, true
}

func (in *Interp) ratOf(x FloatVal) (num *sym.Term, den *big.Int) {
	if x.T != nil {
		return x.T, x.Den
	}
	if !x.Known {
		in.fail("unsupported", "arithmetic on an unknown float")
	}
	m, e, ok := dyadic(x.F)
	if !ok {
		in.fail("unsupported", "non-finite float")
	}
	if e >= 0 {
		return in.F.BigInt(new(big.Int).Lsh(m, uint(e))), big.NewInt(1)
	}
	return in.F.BigInt(m), pow2(uint(-e))
}

// exactFloat returns the float64 nearest to num/den (den a power of two), i.e. the IEEE
// result of the operation that produced the exact value num/den. While |num| < 2^53 the value
// is representable and nothing is rounded. Otherwise the path forks over the binade of num
// (its bit length k, bounded by the term's interval) and rounds to 53 significant bits,
// ties to even: q = num div 2^s, r = num mod 2^s, s = k-53; q+1 iff r > 2^(s-1) or
// (r = 2^(s-1) and q odd). Negative values that need rounding are unsupported (not needed).
func (in *Interp) exactFloat(num *sym.Term, den *big.Int) FloatVal {
	f := in.F
	lim := f.BigInt(two53)
	tooBig := f.Or(f.Ge(num, lim), f.Le(num, f.Neg(lim)))
	if !in.Branch(tooBig) {
		return FloatVal{T: num, Den: den}
	}
	if in.Branch(f.Lt(num, f.Int(0))) {
		in.fail("unsupported", "negative float64 result needs rounding (not modelled)")
	}
	if num.Hi == nil {
		in.fail("unsupported", "float64 result of unbounded magnitude needs rounding; bound the harness inputs")
	}
	maxk := num.Hi.BitLen()
	for k := 54; k <= maxk; k++ {
		if k < maxk && !in.Branch(f.Lt(num, f.BigInt(pow2(uint(k))))) {
			continue
		}
		s := uint(k - 53)
		ps := f.BigInt(pow2(s))
		q := f.Div(num, ps)
		r := f.Mod(num, ps)
		half := f.BigInt(pow2(s - 1))
		odd := f.Eq(f.Mod(q, f.Int(2)), f.Int(1))
		up := f.Or(f.Gt(r, half), f.And(f.Eq(r, half), odd))
		rq := f.Add(q, f.Ite(up, f.Int(1), f.Int(0)))
		// value = rq * 2^s / den
		d := new(big.Int).Set(den)
		sc := pow2(s)
		g := new(big.Int).GCD(nil, nil, d, sc)
		d.Quo(d, g)
		sc.Quo(sc, g)
		return FloatVal{T: f.Mul(rq, f.BigInt(sc)), Den: d}
	}
	in.fail("unsupported", "float rounding: binade not found")
	return FloatVal{}
}

// fpDiv: IEEE quotient (round to nearest even) of two non-negative doubles xn/xd and yn/yd
// where the divisor is a known constant. The exact quotient is N/D with N = xn*yd (symbolic)
// and D = xd*yn (constant); the path forks over its binade k (D*2^(k-1) <= N < D*2^k) and
// rounds N*2^(53-k)/D to an integer, ties to even.
func (in *Interp) fpDiv(xn *sym.Term, xd *big.Int, yn *sym.Term, yd *big.Int) Value {
	f := in.F
	if !yn.IsConst() || yn.I.Sign() <= 0 {
		in.fail("unsupported", "float division by a symbolic, zero or negative divisor")
	}
	N := f.Mul(xn, f.BigInt(yd))
	D := new(big.Int).Mul(xd, yn.I)
	if in.Branch(f.Lt(N, f.Int(0))) {
		in.fail("unsupported", "float division of a negative value")
	}
	if in.Branch(f.Eq(N, f.Int(0))) {
		return FloatVal{T: f.Int(0), Den: big.NewInt(1)}
	}
	if N.Hi == nil {
		in.fail("unsupported", "float division of a value of unbounded magnitude")
	}
	kmax := N.Hi.BitLen() - D.BitLen() + 1
	kmin := -D.BitLen()
	for k := kmin; k <= kmax; k++ {
		// N < D*2^k ?
		var c *sym.Term
		if k >= 0 {
			c = f.Lt(N, f.BigInt(new(big.Int).Lsh(D, uint(k))))
		} else {
			c = f.Lt(f.Mul(N, f.BigInt(pow2(uint(-k)))), f.BigInt(D))
		}
		if k < kmax && !in.Branch(c) {
			continue
		}
		sh := 53 - k
		num, den := N, new(big.Int).Set(D)
		if sh >= 0 {
			num = f.Mul(N, f.BigInt(pow2(uint(sh))))
		} else {
			den.Lsh(den, uint(-sh))
		}
		dt := f.BigInt(den)
		q := f.Div(num, dt)
		r := f.Mod(num, dt)
		r2 := f.Mul(r, f.Int(2))
		odd := f.Eq(f.Mod(q, f.Int(2)), f.Int(1))
		up := f.Or(f.Gt(r2, dt), f.And(f.Eq(r2, dt), odd))
		rq := f.Add(q, f.Ite(up, f.Int(1), f.Int(0)))
		if sh >= 0 {
			return FloatVal{T: rq, Den: pow2(uint(sh))}
		}
		return FloatVal{T: f.Mul(rq, f.BigInt(pow2(uint(-sh)))), Den: big.NewInt(1)}
	}
	in.fail("unsupported", "float division: binade not found")
	return nil
}

func (in *Interp) fpBinop(op token.Token, x, y FloatVal) Value {
	f := in.F
	xn, xd := in.ratOf(x)
	yn, yd := in.ratOf(y)
	switch op {
	case token.MUL:
		return in.exactFloat(f.Mul(xn, yn), new(big.Int).Mul(xd, yd))
	case token.ADD, token.SUB:
		// common denominator
		a := f.Mul(xn, f.BigInt(yd))
		b := f.Mul(yn, f.BigInt(xd))
		if op == token.ADD {
			return in.exactFloat(f.Add(a, b), new(big.Int).Mul(xd, yd))
		}
		return in.exactFloat(f.Sub(a, b), new(big.Int).Mul(xd, yd))
	case token.QUO:
		return in.fpDiv(xn, xd, yn, yd)
	}
	l := f.Mul(xn, f.BigInt(yd))
	r := f.Mul(yn, f.BigInt(xd))
	switch op {
	case token.EQL:
		return f.Eq(l, r)
	case token.NEQ:
		return f.Not(f.Eq(l, r))
	case token.LSS:
		return f.Lt(l, r)
	case token.LEQ:
		return f.Le(l, r)
	case token.GTR:
		return f.Gt(l, r)
	case token.GEQ:
		return f.Ge(l, r)
	}
	in.fail("unsupported", "float operator "+op.String())
	return nil
}

func (in *Interp) intToFP(x *sym.Term, from types.Type) Value {
	return in.exactFloat(x, big.NewInt(1))
}

// deref a pointer value for marshalling
func (in *Interp) marshalTarget(iv IfaceVal) (Value, types.Type) {
	v, t := iv.V, iv.T
	for {
		pt, ok := t.(*types.Pointer)
		if !ok {
			break
		}
		c := v.(*Cell)
		if c == nil {
			return nil, t
		}
		v = in.load(c)
		t = pt.Elem()
	}
	return v, t
}

func hasMarshalJSON(t types.Type) bool {
	for _, tt := range []types.Type{t, types.NewPointer(t)} {
		ms := types.NewMethodSet(tt)
		for i := 0; i < ms.Len(); i++ {
			if ms.At(i).Obj().Name() == "MarshalJSON" {
				return true
			}
		}
	}
	return false
}

// jsonEmpty: encoding/json's "empty value" for omitempty (false, 0, nil pointer/interface, empty
// array/slice/map/string); a symbolic number forks on == 0
func (in *Interp) jsonEmpty(v Value) bool {
	switch x := v.(type) {
	case *sym.Term:
		if x.Sort == sym.SBool {
			return !in.Branch(x)
		}
		return in.Branch(in.F.Eq(x, in.F.Int(0)))
	case string:
		return x == ""
	case SliceVal:
		return x.Len == 0 && x.Ext == nil
	case *Cell:
		return x == nil
	case IfaceVal:
		return x.T == nil
	case nil:
		return true
	}
	return false
}

func registerBlobs(ex *Explorer) {
	I := ex.intercepts
	I["encoding/json.Marshal"] = func(in *Interp, fn *ssa.Function, a []Value) Value {
		iv := a[0].(IfaceVal)
		v, t := in.marshalTarget(iv)
		if in.mode["jsonobj"] == 1 {
			// object-level encoder (on request of a harness): a struct WITHOUT its own MarshalJSON becomes a
			// modelled JSON object whose members follow the struct tags (name, "-", omitempty), each value the
			// encoding of its field; the real decoders then run over that object
			if st, ok := t.Underlying().(*types.Struct); ok && !hasMarshalJSON(t) {
				if sv, ok := v.(*StructVal); ok {
					d := &jsonDoc{}
					for i := 0; i < st.NumFields(); i++ {
						f := st.Field(i)
						if !f.Exported() {
							continue
						}
						tag := reflect.StructTag(st.Tag(i)).Get("json")
						name, opts := tag, ""
						if k := strings.Index(tag, ","); k >= 0 {
							name, opts = tag[:k], tag[k+1:]
						}
						if name == "-" && opts == "" {
							continue
						}
						if name == "" {
							name = f.Name()
						}
						if strings.Contains(","+opts+",", ",omitempty,") && in.jsonEmpty(sv.F[i]) {
							continue
						}
						fb := in.newBlob("json", sv.F[i], f.Type())
						d.keys = append(d.keys, name)
						d.vals = append(d.vals, fb)
					}
					return TupleVal{SliceVal{Ext: d}, IfaceVal{}}
				}
			}
		}
		return TupleVal{in.newBlob("json", v, t), IfaceVal{}}
	}
	// srv.unmarshalStrict(data, v): json.NewDecoder + DisallowUnknownFields + Decode; modelled as
	// json.Unmarshal of the parse stub (unknown-field strictness is below what the stub represents)
	I["github.com/pegnet/pegnetd/srv.unmarshalStrict"] = func(in *Interp, fn *ssa.Function, a []Value) Value {
		return in.Ex.intercepts["encoding/json.Unmarshal"](in, fn, a)
	}
	I["encoding/json.Unmarshal"] = func(in *Interp, fn *ssa.Function, a []Value) Value {
		data := a[0].(SliceVal)
		dst := a[1].(IfaceVal)
		if data.Ext == nil && data.Len == 0 {
			return in.newError("unexpected end of JSON input")
		}
		if w, ok := data.Ext.(*wsVariant); ok {
			data = w.of
		}
		if d, isDoc := data.Ext.(*jsonDoc); isDoc {
			dc, ok := dst.V.(*Cell)
			if !ok || dc == nil {
				return in.newError("json: Unmarshal(non-pointer)")
			}
			st, ok := dst.T.(*types.Pointer).Elem().Underlying().(*types.Struct)
			if !ok {
				return in.newError("json: cannot unmarshal object into Go value (document model)")
			}
			return in.unmarshalDoc(d, dc, st)
		}
		if r, isRaw := data.Ext.(*rawJSON); isRaw {
			dc, ok := dst.V.(*Cell)
			if !ok || dc == nil {
				return in.newError("json: Unmarshal(non-pointer)")
			}
			et := dst.T.(*types.Pointer).Elem()
			switch r.text {
			case "null":
				return IfaceVal{} // leaves the destination as it is
			case "[]":
				if sl, ok := et.Underlying().(*types.Slice); ok {
					in.storeInto(dc, et, in.makeSlice(sl.Elem(), 0, 0))
					return IfaceVal{}
				}
				return in.newError("json: cannot unmarshal array into Go value (document model)")
			}
			if n, err := strconv.ParseUint(r.text, 10, 64); err == nil && isIntType(et) {
				in.storeInto(dc, et, in.wrap(in.F.BigInt(new(big.Int).SetUint64(n)), et))
				return IfaceVal{}
			}
			if r.text == "<invalid>" {
				return in.newError("invalid character (document model: not a JSON document)")
			}
			in.fail("unsupported", "json.Unmarshal of the raw literal "+r.text)
		}
		b, ok := data.Ext.(*blob)
		if !ok || b.kind != "json" {
			if cb, isC := in.sliceBytes(data); isC && data.Arr != nil && string(cb) == "[]" {
				// the one literal the repo decodes: an empty JSON list
				dc := dst.V.(*Cell)
				in.storeInto(dc, dc.T, in.zero(dc.T))
				return IfaceVal{}
			}
			in.fail("unsupported", "json.Unmarshal of bytes that were not produced by the json.Marshal stub")
		}
		dc, ok := dst.V.(*Cell)
		if !ok || dc == nil {
			return in.newError("json: Unmarshal(non-pointer)")
		}
		et := dst.T.(*types.Pointer).Elem()
		if !types.Identical(et.Underlying(), b.typ.Underlying()) {
			in.fail("unsupported", fmt.Sprintf("json round trip between different types %s and %s", b.typ, et))
		}
		in.storeInto(dc, et, copyValue(b.val))
		return IfaceVal{}
	}
}
