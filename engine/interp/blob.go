package interp

import (
	"fmt"
	"go/token"
	"go/types"

	"gosym/sym"

	"golang.org/x/tools/go/ssa"
)

// Opaque blobs: the result of a marshal stub carries the marshalled VALUE instead
// of bytes; the matching unmarshal stub copies it back (round trip assumed).
type blob struct {
	kind string // "json", "entrybin"
	val  Value
	typ  types.Type
	ser  int
}

func (in *Interp) newBlob(kind string, v Value, t types.Type) SliceVal {
	in.varSeq["$blob"]++
	return SliceVal{Ext: &blob{kind: kind, val: copyValue(v), typ: t, ser: in.varSeq["$blob"]}}
}

func (in *Interp) blobToString(s SliceVal) Value {
	in.fail("unsupported", "opaque blob converted to string")
	return nil
}

func (in *Interp) materializeBlob(s *SliceVal) {
	in.fail("unsupported", "bytes of an opaque (stub-marshalled) blob accessed")
}

func (in *Interp) blobLen(s SliceVal) int {
	if m, ok := s.Ext.(*sigMarker); ok {
		return 1 + 2*len(m.signers) + m.nExtra
	}
	// an encoding is never empty; the exact length is not modelled
	return 2
}

func (in *Interp) fpBinop(op token.Token, x, y FloatVal) Value {
	in.fail("unsupported", "fp mode")
	return nil
}
func (in *Interp) intToFP(x *sym.Term, from types.Type) Value {
	in.fail("unsupported", "fp mode")
	return nil
}

// deref a pointer value for marshalling
func (in *Interp) marshalTarget(iv IfaceVal) (Value, types.Type) {
	v, t := iv.V, iv.T
	for {
		pt, ok := t.(*types.Pointer)
		if !ok {
			break
		}
		c := v.(*Cell)
		if c == nil {
			return nil, t
		}
		v = in.load(c)
		t = pt.Elem()
	}
	return v, t
}

func registerBlobs(ex *Explorer) {
	I := ex.intercepts
	I["encoding/json.Marshal"] = func(in *Interp, fn *ssa.Function, a []Value) Value {
		iv := a[0].(IfaceVal)
		v, t := in.marshalTarget(iv)
		return TupleVal{in.newBlob("json", v, t), IfaceVal{}}
	}
	I["encoding/json.Unmarshal"] = func(in *Interp, fn *ssa.Function, a []Value) Value {
		data := a[0].(SliceVal)
		dst := a[1].(IfaceVal)
		b, ok := data.Ext.(*blob)
		if !ok || b.kind != "json" {
			if cb, isC := in.sliceBytes(data); isC && data.Arr != nil && string(cb) == "[]" {
				// the one literal the repo decodes: an empty JSON list
				dc := dst.V.(*Cell)
				in.storeInto(dc, dc.T, in.zero(dc.T))
				return IfaceVal{}
			}
			in.fail("unsupported", "json.Unmarshal of bytes that were not produced by the json.Marshal stub")
		}
		dc, ok := dst.V.(*Cell)
		if !ok || dc == nil {
			return in.newError("json: Unmarshal(non-pointer)")
		}
		et := dst.T.(*types.Pointer).Elem()
		if !types.Identical(et.Underlying(), b.typ.Underlying()) {
			in.fail("unsupported", fmt.Sprintf("json round trip between different types %s and %s", b.typ, et))
		}
		in.storeInto(dc, et, copyValue(b.val))
		return IfaceVal{}
	}
}
