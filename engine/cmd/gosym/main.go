package main

import (
	"encoding/json"
	"flag"
	"fmt"
	"os"
	"path/filepath"
	"runtime/debug"
	"runtime/pprof"
	"strconv"
	"strings"
	"time"

	"gosym/interp"

	"golang.org/x/tools/go/packages"
	"golang.org/x/tools/go/ssa"
	"golang.org/x/tools/go/ssa/ssautil"
)

// overlayFromDir maps every file under dir/<rel path>/x.go to /repo/<rel path>/x.go.
func overlayFromDir(dir, repo string, ov map[string][]byte) error {
	return filepath.Walk(dir, func(p string, fi os.FileInfo, err error) error {
		if err != nil || fi.IsDir() || !strings.HasSuffix(p, ".go") {
			return err
		}
		rel, _ := filepath.Rel(dir, p)
		b, err := os.ReadFile(p)
		if err != nil {
			return err
		}
		ov[filepath.Join(repo, rel)] = b
		return nil
	})
}

func load(repo string, overlayDirs []string, patterns []string, overlayJSON string) (*ssa.Program, []*ssa.Package, error) {
	ov := map[string][]byte{}
	if overlayJSON != "" {
		b, err := os.ReadFile(overlayJSON)
		if err != nil {
			return nil, nil, err
		}
		var oj struct{ Replace map[string]string }
		if err := json.Unmarshal(b, &oj); err != nil {
			return nil, nil, err
		}
		for dst, src := range oj.Replace {
			c, err := os.ReadFile(src)
			if err != nil {
				return nil, nil, err
			}
			ov[dst] = c
		}
	}
	for _, d := range overlayDirs {
		if err := overlayFromDir(d, repo, ov); err != nil {
			return nil, nil, err
		}
	}
	cfg := &packages.Config{Mode: packages.LoadAllSyntax, Dir: repo, Tests: false,
		Env:     append(os.Environ(), "GOFLAGS=-mod=mod", "GOPROXY=off", "GOSUMDB=off", "GOTOOLCHAIN=local"),
		Overlay: ov}
	pkgs, err := packages.Load(cfg, patterns...)
	if err != nil {
		return nil, nil, err
	}
	if packages.PrintErrors(pkgs) > 0 {
		return nil, nil, fmt.Errorf("package load errors")
	}
	prog, spkgs := ssautil.AllPackages(pkgs, ssa.InstantiateGenerics)
	prog.Build()
	return prog, spkgs, nil
}

func main() {
	repo := flag.String("repo", "/repo", "repository root")
	overlay := flag.String("overlay", "", "comma separated overlay dirs (mirroring repo layout)")
	pkgsFlag := flag.String("pkgs", "", "comma separated package patterns to load")
	harness := flag.String("harness", "", "comma separated pkgpath.Func harness entries")
	out := flag.String("out", "", "output JSON file")
	workers := flag.Int("workers", 8, "parallel workers")
	maxPaths := flag.Int("maxpaths", 200000, "path cap")
	timeout := flag.Int("timeout", 20000, "solver timeout per query (ms)")
	wall := flag.Int("wall", 0, "wall-clock cap per harness in seconds (0 = none)")
	solver := flag.String("solver", "z3-new", "solver")
	params := flag.String("params", "", "k=v,k=v harness parameters")
	verbose := flag.Bool("v", false, "verbose")
	asserts := flag.String("asserts", "", "comma separated assertion-id prefixes to check (default all)")
	overlayJSON := flag.String("overlayjson", "", "go build overlay JSON with further file replacements (dependency hook points)")
	cpuprof := flag.String("cpuprofile", "", "write cpu profile")
	flag.Parse()
	debug.SetGCPercent(800)
	if *cpuprof != "" {
		pf, _ := os.Create(*cpuprof)
		pprof.StartCPUProfile(pf)
		defer pprof.StopCPUProfile()
	}

	t0 := time.Now()
	prog, spkgs, err := load(*repo, strings.Split(*overlay, ","), strings.Split(*pkgsFlag, ","), *overlayJSON)
	if err != nil {
		fmt.Fprintln(os.Stderr, "load:", err)
		os.Exit(3)
	}
	loadS := time.Since(t0).Seconds()
	pm := map[string]int{}
	if *params != "" {
		for _, kv := range strings.Split(*params, ",") {
			p := strings.SplitN(kv, "=", 2)
			if len(p) == 2 {
				n, _ := strconv.Atoi(p[1])
				pm[p[0]] = n
			}
		}
	}
	var sums []*interp.Summary
	for _, h := range strings.Split(*harness, ",") {
		i := strings.LastIndex(h, ".")
		pkgPath, fname := h[:i], h[i+1:]
		var fn *ssa.Function
		for _, p := range spkgs {
			if p != nil && p.Pkg.Path() == pkgPath {
				fn = p.Func(fname)
			}
		}
		if fn == nil {
			fmt.Fprintln(os.Stderr, "harness not found:", h)
			os.Exit(3)
		}
		ex := interp.NewExplorer(prog, fn)
		ex.HarnessID = fname
		ex.Workers = *workers
		ex.MaxPaths = *maxPaths
		ex.TimeoutMs = *timeout
		ex.SolverName = *solver
		ex.Params = pm
		ex.Verbose = *verbose
		if *asserts != "" {
			ex.AssertPrefixes = strings.Split(*asserts, ",")
		}
		if *wall > 0 {
			ex.Deadline = time.Now().Add(time.Duration(*wall) * time.Second)
		}
		if os.Getenv("GOSYM_SITES") != "" {
			ex.SiteStats = map[string]int{}
		}
		s := ex.Run()
		if ex.SiteStats != nil {
			for k, v := range ex.SiteStats {
				fmt.Fprintf(os.Stderr, "SITE %8d %s\n", v, k)
			}
		}
		sums = append(sums, s)
		fmt.Fprintf(os.Stderr, "[%s] paths=%d ends=%v queries=%d asserts=%d violations=%d inconclusive=%d wall=%.1fs solver=%.1fs\n",
			fname, s.Paths, s.Ends, s.Queries, s.Asserts, len(s.Violations), len(s.Inconclusive), s.WallS, s.SolverTimeS)
	}
	res := map[string]interface{}{"load_s": loadS, "harnesses": sums}
	b, _ := json.MarshalIndent(res, "", " ")
	if *out != "" {
		os.WriteFile(*out, b, 0644)
	} else {
		os.Stdout.Write(b)
	}
}
