// Package sym: SMT terms (mathematical Int + Bool, with explicit wrap added by the
// interpreter), simplifying constructors, interval bounds, SMT-LIB2 printing.
package sym

import (
	"fmt"
	"math/big"
	"sort"
	"strings"
)

type Sort int

const (
	SInt Sort = iota
	SBool
	SBV64 // 64-bit bit-vector (BV/FP harnesses only)
	SFP   // Float64
)

func (s Sort) String() string {
	switch s {
	case SInt:
		return "Int"
	case SBool:
		return "Bool"
	case SBV64:
		return "(_ BitVec 64)"
	case SFP:
		return "(_ FloatingPoint 11 53)"
	}
	return "?"
}

type Term struct {
	Op   string // "c" const, "v" var, else SMT operator
	Args []*Term
	Sort Sort
	I    *big.Int // Int const value
	B    bool     // Bool const value
	Name string   // var name / raw literal for BV,FP consts
	Lo   *big.Int // interval (Int sort), nil = unbounded
	Hi   *big.Int
	id   int
}

func (t *Term) IsConst() bool { return t.Op == "c" }

// Int64 returns the constant value (must be const Int).
func (t *Term) Int64() int64 { return t.I.Int64() }

// Factory interns terms; one per worker (not goroutine safe).
type tkey struct {
	op         string
	sort       Sort
	a0, a1, a2 int
	n          int
	name       string
}

type Factory struct {
	tab    map[string]*Term
	ktab   map[tkey]*Term
	itab   map[int64]*Term
	vtab   map[string]*Term
	nextID int
	True   *Term
	False  *Term
	small  [1024]*Term
	Vars   []*Term // declared variables in order of creation
}

func NewFactory() *Factory {
	f := &Factory{tab: map[string]*Term{}, ktab: map[tkey]*Term{}, itab: map[int64]*Term{}, vtab: map[string]*Term{}}
	f.True = f.intern(&Term{Op: "c", Sort: SBool, B: true})
	f.False = f.intern(&Term{Op: "c", Sort: SBool, B: false})
	return f
}

func (f *Factory) key(t *Term) string {
	var sb strings.Builder
	sb.WriteString(t.Op)
	sb.WriteByte('|')
	sb.WriteByte(byte('0' + t.Sort))
	switch t.Op {
	case "c":
		if t.Sort == SInt {
			sb.WriteString(t.I.String())
		} else if t.Sort == SBool {
			if t.B {
				sb.WriteByte('T')
			} else {
				sb.WriteByte('F')
			}
		} else {
			sb.WriteString(t.Name)
		}
	case "v":
		sb.WriteString(t.Name)
	default:
		for _, a := range t.Args {
			fmt.Fprintf(&sb, "%d,", a.id)
		}
	}
	return sb.String()
}

func (f *Factory) intern(t *Term) *Term {
	if t.Op != "c" && len(t.Args) <= 3 {
		k := tkey{op: t.Op, sort: t.Sort, n: len(t.Args), name: t.Name}
		switch len(t.Args) {
		case 3:
			k.a2 = t.Args[2].id
			fallthrough
		case 2:
			k.a1 = t.Args[1].id
			fallthrough
		case 1:
			k.a0 = t.Args[0].id
		}
		if o, ok := f.ktab[k]; ok {
			return o
		}
		f.nextID++
		t.id = f.nextID
		f.ktab[k] = t
		return t
	}
	k := f.key(t)
	if o, ok := f.tab[k]; ok {
		return o
	}
	f.nextID++
	t.id = f.nextID
	f.tab[k] = t
	return t
}

func (f *Factory) Int(v int64) *Term {
	if v >= 0 && v < int64(len(f.small)) {
		if t := f.small[v]; t != nil {
			return t
		}
		t := f.BigInt(big.NewInt(v))
		f.small[v] = t
		return t
	}
	return f.BigInt(big.NewInt(v))
}

func (f *Factory) BigInt(v *big.Int) *Term {
	if v.IsInt64() {
		k := v.Int64()
		if t, ok := f.itab[k]; ok {
			return t
		}
		b := new(big.Int).Set(v)
		f.nextID++
		t := &Term{Op: "c", Sort: SInt, I: b, Lo: b, Hi: b, id: f.nextID}
		f.itab[k] = t
		return t
	}
	b := new(big.Int).Set(v)
	return f.intern(&Term{Op: "c", Sort: SInt, I: b, Lo: b, Hi: b})
}

func (f *Factory) Uint(v uint64) *Term { return f.BigInt(new(big.Int).SetUint64(v)) }

func (f *Factory) Bool(b bool) *Term {
	if b {
		return f.True
	}
	return f.False
}

// Var declares a fresh variable; names must be unique per path.
func (f *Factory) Var(name string, s Sort, lo, hi *big.Int) *Term {
	// identity = name + bounds (a factory outlives one path; the same tag may be
	// declared with other bounds on another path)
	key := name + "@"
	if lo != nil {
		key += lo.String()
	}
	key += ":"
	if hi != nil {
		key += hi.String()
	}
	t, ok := f.vtab[key]
	if !ok {
		f.nextID++
		t = &Term{Op: "v", Sort: s, Name: name, Lo: lo, Hi: hi, id: f.nextID}
		f.vtab[key] = t
	}
	for _, v := range f.Vars {
		if v == t {
			return t
		}
	}
	f.Vars = append(f.Vars, t)
	return t
}

func (f *Factory) mk(op string, s Sort, args ...*Term) *Term {
	return f.intern(&Term{Op: op, Sort: s, Args: args})
}

func (f *Factory) mkI(op string, lo, hi *big.Int, args ...*Term) *Term {
	t := f.intern(&Term{Op: op, Sort: SInt, Args: args})
	// keep tightest known bounds
	if t.Lo == nil || (lo != nil && lo.Cmp(t.Lo) > 0) {
		t.Lo = lo
	}
	if t.Hi == nil || (hi != nil && hi.Cmp(t.Hi) < 0) {
		t.Hi = hi
	}
	return t
}

func addB(a, b *big.Int) *big.Int {
	if a == nil || b == nil {
		return nil
	}
	return new(big.Int).Add(a, b)
}
func subB(a, b *big.Int) *big.Int {
	if a == nil || b == nil {
		return nil
	}
	return new(big.Int).Sub(a, b)
}
func minB(xs ...*big.Int) *big.Int {
	var m *big.Int
	for _, x := range xs {
		if x == nil {
			return nil
		}
		if m == nil || x.Cmp(m) < 0 {
			m = x
		}
	}
	return m
}
func maxB(xs ...*big.Int) *big.Int {
	var m *big.Int
	for _, x := range xs {
		if x == nil {
			return nil
		}
		if m == nil || x.Cmp(m) > 0 {
			m = x
		}
	}
	return m
}

func (f *Factory) Add(a, b *Term) *Term {
	if a.IsConst() && b.IsConst() {
		return f.BigInt(new(big.Int).Add(a.I, b.I))
	}
	if a.IsConst() && a.I.Sign() == 0 {
		return b
	}
	if b.IsConst() && b.I.Sign() == 0 {
		return a
	}
	// (x - y) + y -> x
	if a.Op == "-" && len(a.Args) == 2 && a.Args[1] == b {
		return a.Args[0]
	}
	if b.Op == "-" && len(b.Args) == 2 && b.Args[1] == a {
		return b.Args[0]
	}
	// n-ary canonical sum: flatten, fold constants, sort by id (so that sums built in
	// different association/order are the same term)
	var args []*Term
	c := new(big.Int)
	add := func(t *Term) {
		if t.Op == "+" {
			for _, x := range t.Args {
				if x.IsConst() {
					c.Add(c, x.I)
				} else {
					args = append(args, x)
				}
			}
		} else if t.IsConst() {
			c.Add(c, t.I)
		} else {
			args = append(args, t)
		}
	}
	add(a)
	add(b)
	sort.Slice(args, func(i, j int) bool { return args[i].id < args[j].id })
	if c.Sign() != 0 {
		args = append(args, f.BigInt(c))
	}
	if len(args) == 1 {
		return args[0]
	}
	var lo, hi *big.Int = big.NewInt(0), big.NewInt(0)
	for _, x := range args {
		lo = addB(lo, x.Lo)
		hi = addB(hi, x.Hi)
	}
	return f.mkI("+", lo, hi, args...)
}

func (f *Factory) Sub(a, b *Term) *Term {
	if a.IsConst() && b.IsConst() {
		return f.BigInt(new(big.Int).Sub(a.I, b.I))
	}
	if b.IsConst() && b.I.Sign() == 0 {
		return a
	}
	if a == b {
		return f.Int(0)
	}
	// (x + y + ...) - y -> x + ...
	if a.Op == "+" {
		for i, x := range a.Args {
			if x == b {
				rest := append(append([]*Term{}, a.Args[:i]...), a.Args[i+1:]...)
				acc := rest[0]
				for _, r := range rest[1:] {
					acc = f.Add(acc, r)
				}
				return acc
			}
		}
	}
	if b.IsConst() {
		return f.Add(a, f.BigInt(new(big.Int).Neg(b.I)))
	}
	return f.mkI("-", subB(a.Lo, b.Hi), subB(a.Hi, b.Lo), a, b)
}

func (f *Factory) Neg(a *Term) *Term { return f.Sub(f.Int(0), a) }

func (f *Factory) Mul(a, b *Term) *Term {
	if a.IsConst() && b.IsConst() {
		return f.BigInt(new(big.Int).Mul(a.I, b.I))
	}
	if a.IsConst() {
		a, b = b, a
	}
	if b.IsConst() {
		if b.I.Sign() == 0 {
			return f.Int(0)
		}
		if b.I.Cmp(big.NewInt(1)) == 0 {
			return a
		}
	}
	if !a.IsConst() && !b.IsConst() && a.id > b.id {
		a, b = b, a // commutative normal form
	}
	var lo, hi *big.Int
	if a.Lo != nil && a.Hi != nil && b.Lo != nil && b.Hi != nil {
		p1 := new(big.Int).Mul(a.Lo, b.Lo)
		p2 := new(big.Int).Mul(a.Lo, b.Hi)
		p3 := new(big.Int).Mul(a.Hi, b.Lo)
		p4 := new(big.Int).Mul(a.Hi, b.Hi)
		lo = minB(p1, p2, p3, p4)
		hi = maxB(p1, p2, p3, p4)
	}
	return f.mkI("*", lo, hi, a, b)
}

// Div is SMT-LIB integer division (floor for positive divisor). Callers
// implementing Go's truncated division must handle signs.
func (f *Factory) Div(a, b *Term) *Term {
	if a.IsConst() && b.IsConst() && b.I.Sign() != 0 {
		q, _ := new(big.Int).DivMod(a.I, b.I, new(big.Int)) // Euclidean, matches SMT-LIB
		return f.BigInt(q)
	}
	if b.IsConst() && b.I.Cmp(big.NewInt(1)) == 0 {
		return a
	}
	var lo, hi *big.Int
	if a.Lo != nil && a.Lo.Sign() >= 0 && b.Lo != nil && b.Lo.Sign() > 0 {
		lo = big.NewInt(0)
		if a.Hi != nil {
			hi = new(big.Int).Div(a.Hi, b.Lo)
		}
		if b.Hi != nil {
			lo = new(big.Int).Div(a.Lo, b.Hi)
		}
	}
	return f.mkI("div", lo, hi, a, b)
}

func (f *Factory) Mod(a, b *Term) *Term {
	if a.IsConst() && b.IsConst() && b.I.Sign() != 0 {
		_, m := new(big.Int).DivMod(a.I, b.I, new(big.Int))
		return f.BigInt(m)
	}
	var lo, hi *big.Int
	if b.IsConst() && b.I.Sign() > 0 {
		// already in range?
		if a.Lo != nil && a.Hi != nil && a.Lo.Sign() >= 0 && a.Hi.Cmp(b.I) < 0 {
			return a
		}
		lo = big.NewInt(0)
		hi = new(big.Int).Sub(b.I, big.NewInt(1))
	} else if b.Lo != nil && b.Lo.Sign() > 0 && b.Hi != nil {
		lo = big.NewInt(0)
		hi = new(big.Int).Sub(b.Hi, big.NewInt(1))
	}
	return f.mkI("mod", lo, hi, a, b)
}

func (f *Factory) Ite(c, a, b *Term) *Term {
	if c.IsConst() {
		if c.B {
			return a
		}
		return b
	}
	if a == b {
		return a
	}
	if a.Sort == SBool {
		if a.IsConst() && b.IsConst() {
			if a.B {
				return c
			}
			return f.Not(c)
		}
		return f.mk("ite", SBool, c, a, b)
	}
	if a.Sort != SInt {
		return f.mk("ite", a.Sort, c, a, b)
	}
	return f.mkI("ite", minB(a.Lo, b.Lo), maxB(a.Hi, b.Hi), c, a, b)
}

func (f *Factory) Not(a *Term) *Term {
	if a.IsConst() {
		return f.Bool(!a.B)
	}
	if a.Op == "not" {
		return a.Args[0]
	}
	return f.mk("not", SBool, a)
}

func (f *Factory) And(xs ...*Term) *Term {
	var out []*Term
	for _, x := range xs {
		if x.IsConst() {
			if !x.B {
				return f.False
			}
			continue
		}
		if x.Op == "and" {
			out = append(out, x.Args...)
			continue
		}
		out = append(out, x)
	}
	out = dedup(out)
	for _, x := range out {
		for _, y := range out {
			if x.Op == "not" && x.Args[0] == y {
				return f.False
			}
		}
	}
	switch len(out) {
	case 0:
		return f.True
	case 1:
		return out[0]
	}
	return f.mk("and", SBool, out...)
}

func (f *Factory) Or(xs ...*Term) *Term {
	var out []*Term
	for _, x := range xs {
		if x.IsConst() {
			if x.B {
				return f.True
			}
			continue
		}
		if x.Op == "or" {
			out = append(out, x.Args...)
			continue
		}
		out = append(out, x)
	}
	out = dedup(out)
	for _, x := range out {
		for _, y := range out {
			if x.Op == "not" && x.Args[0] == y {
				return f.True
			}
		}
	}
	switch len(out) {
	case 0:
		return f.False
	case 1:
		return out[0]
	}
	return f.mk("or", SBool, out...)
}

func (f *Factory) Implies(a, b *Term) *Term { return f.Or(f.Not(a), b) }

func dedup(xs []*Term) []*Term {
	seen := map[*Term]bool{}
	var out []*Term
	for _, x := range xs {
		if !seen[x] {
			seen[x] = true
			out = append(out, x)
		}
	}
	return out
}

func (f *Factory) Eq(a, b *Term) *Term {
	if a == b {
		return f.True
	}
	if a.Sort == SBool {
		if a.IsConst() {
			if a.B {
				return b
			}
			return f.Not(b)
		}
		if b.IsConst() {
			if b.B {
				return a
			}
			return f.Not(a)
		}
		return f.mk("=", SBool, a, b)
	}
	if a.Sort != SInt {
		return f.mk("=", SBool, a, b)
	}
	if a.IsConst() && b.IsConst() {
		return f.Bool(a.I.Cmp(b.I) == 0)
	}
	// disjoint intervals
	if a.Hi != nil && b.Lo != nil && a.Hi.Cmp(b.Lo) < 0 {
		return f.False
	}
	if b.Hi != nil && a.Lo != nil && b.Hi.Cmp(a.Lo) < 0 {
		return f.False
	}
	if a.id > b.id {
		a, b = b, a
	}
	return f.mk("=", SBool, a, b)
}

func (f *Factory) Lt(a, b *Term) *Term {
	if a == b {
		return f.False
	}
	if a.IsConst() && b.IsConst() {
		return f.Bool(a.I.Cmp(b.I) < 0)
	}
	if a.Hi != nil && b.Lo != nil && a.Hi.Cmp(b.Lo) < 0 {
		return f.True
	}
	if a.Lo != nil && b.Hi != nil && a.Lo.Cmp(b.Hi) >= 0 {
		return f.False
	}
	return f.mk("<", SBool, a, b)
}

func (f *Factory) Le(a, b *Term) *Term {
	if a == b {
		return f.True
	}
	if a.IsConst() && b.IsConst() {
		return f.Bool(a.I.Cmp(b.I) <= 0)
	}
	if a.Hi != nil && b.Lo != nil && a.Hi.Cmp(b.Lo) <= 0 {
		return f.True
	}
	if a.Lo != nil && b.Hi != nil && a.Lo.Cmp(b.Hi) > 0 {
		return f.False
	}
	return f.mk("<=", SBool, a, b)
}

func (f *Factory) Gt(a, b *Term) *Term { return f.Lt(b, a) }
func (f *Factory) Ge(a, b *Term) *Term { return f.Le(b, a) }

// Raw builds an arbitrary operator application (BV/FP ops).
func (f *Factory) Raw(op string, s Sort, args ...*Term) *Term { return f.mk(op, s, args...) }

// RawConst builds a literal of a non-Int sort.
func (f *Factory) RawConst(lit string, s Sort) *Term {
	return f.intern(&Term{Op: "c", Sort: s, Name: lit})
}

// ---- printing ----

// SMT renders t as SMT-LIB2 with let-sharing for DAG nodes used more than once.
func SMT(t *Term) string {
	cnt := map[*Term]int{}
	var walk func(*Term)
	walk = func(x *Term) {
		cnt[x]++
		if cnt[x] > 1 {
			return
		}
		for _, a := range x.Args {
			walk(a)
		}
	}
	walk(t)
	// shared non-leaf nodes in topological (id) order
	var shared []*Term
	for x, c := range cnt {
		if c > 1 && len(x.Args) > 0 {
			shared = append(shared, x)
		}
	}
	sort.Slice(shared, func(i, j int) bool { return shared[i].id < shared[j].id })
	names := map[*Term]string{}
	var sb strings.Builder
	for _, s := range shared {
		sb.WriteString("(let ((")
		n := fmt.Sprintf("$s%d", s.id)
		sb.WriteString(n)
		sb.WriteByte(' ')
		render(&sb, s, names)
		sb.WriteString(")) ")
		names[s] = n
	}
	render(&sb, t, names)
	for range shared {
		sb.WriteByte(')')
	}
	return sb.String()
}

func render(sb *strings.Builder, t *Term, names map[*Term]string) {
	if n, ok := names[t]; ok {
		sb.WriteString(n)
		return
	}
	switch t.Op {
	case "c":
		switch t.Sort {
		case SInt:
			if t.I.Sign() < 0 {
				sb.WriteString("(- ")
				sb.WriteString(new(big.Int).Neg(t.I).String())
				sb.WriteByte(')')
			} else {
				sb.WriteString(t.I.String())
			}
		case SBool:
			if t.B {
				sb.WriteString("true")
			} else {
				sb.WriteString("false")
			}
		default:
			sb.WriteString(t.Name)
		}
	case "v":
		sb.WriteString(t.Name)
	default:
		sb.WriteByte('(')
		sb.WriteString(t.Op)
		for _, a := range t.Args {
			sb.WriteByte(' ')
			render(sb, a, names)
		}
		sb.WriteByte(')')
	}
}

func (t *Term) String() string {
	s := SMT(t)
	if len(s) > 400 {
		return s[:400] + "…"
	}
	return s
}

// Eval evaluates t under a model (var name -> value). Bool vars map to 0/1.
func Eval(t *Term, m map[string]*big.Int) (*big.Int, bool) {
	memo := map[*Term]*big.Int{}
	var ev func(*Term) *big.Int
	b2i := func(b bool) *big.Int {
		if b {
			return big.NewInt(1)
		}
		return big.NewInt(0)
	}
	ok := true
	ev = func(x *Term) *big.Int {
		if v, have := memo[x]; have {
			return v
		}
		var r *big.Int
		switch x.Op {
		case "c":
			if x.Sort == SInt {
				r = x.I
			} else if x.Sort == SBool {
				r = b2i(x.B)
			} else {
				ok = false
				r = big.NewInt(0)
			}
		case "v":
			v, have := m[x.Name]
			if !have {
				v = big.NewInt(0)
				if x.Lo != nil && x.Lo.Sign() > 0 {
					v = x.Lo
				}
			}
			r = v
		case "+":
			r = new(big.Int)
			for _, a := range x.Args {
				r = new(big.Int).Add(r, ev(a))
			}
		case "-":
			r = new(big.Int).Sub(ev(x.Args[0]), ev(x.Args[1]))
		case "*":
			r = new(big.Int).Mul(ev(x.Args[0]), ev(x.Args[1]))
		case "div":
			d := ev(x.Args[1])
			if d.Sign() == 0 {
				r = big.NewInt(0)
			} else {
				r, _ = new(big.Int).DivMod(ev(x.Args[0]), d, new(big.Int))
			}
		case "mod":
			d := ev(x.Args[1])
			if d.Sign() == 0 {
				r = ev(x.Args[0])
			} else {
				_, r = new(big.Int).DivMod(ev(x.Args[0]), d, new(big.Int))
			}
		case "ite":
			if ev(x.Args[0]).Sign() != 0 {
				r = ev(x.Args[1])
			} else {
				r = ev(x.Args[2])
			}
		case "not":
			r = b2i(ev(x.Args[0]).Sign() == 0)
		case "and":
			v := true
			for _, a := range x.Args {
				if ev(a).Sign() == 0 {
					v = false
				}
			}
			r = b2i(v)
		case "or":
			v := false
			for _, a := range x.Args {
				if ev(a).Sign() != 0 {
					v = true
				}
			}
			r = b2i(v)
		case "=":
			r = b2i(ev(x.Args[0]).Cmp(ev(x.Args[1])) == 0)
		case "<":
			r = b2i(ev(x.Args[0]).Cmp(ev(x.Args[1])) < 0)
		case "<=":
			r = b2i(ev(x.Args[0]).Cmp(ev(x.Args[1])) <= 0)
		default:
			ok = false
			r = big.NewInt(0)
		}
		memo[x] = r
		return r
	}
	v := ev(t)
	return v, ok
}

// Bounded records semantic bounds known to hold for t (e.g. after a wrap).
func (f *Factory) Bounded(t *Term, lo, hi *big.Int) *Term {
	if t.IsConst() || t.Sort != SInt {
		return t
	}
	if t.Lo == nil || (lo != nil && lo.Cmp(t.Lo) > 0) {
		t.Lo = lo
	}
	if t.Hi == nil || (hi != nil && hi.Cmp(t.Hi) < 0) {
		t.Hi = hi
	}
	return t
}

// ID exposes the interning id (stable within one factory).
func (t *Term) ID() int { return t.id }
