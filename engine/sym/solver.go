package sym

import (
	"bufio"
	"fmt"
	"io"
	"math/big"
	"os"
	"os/exec"
	"strings"
	"time"
)

type Result int

const (
	Sat Result = iota
	Unsat
	Unknown
)

func (r Result) String() string { return [...]string{"sat", "unsat", "unknown"}[r] }

// Solver is one live SMT solver process driven over pipes.
type Solver struct {
	Name      string
	cmd       *exec.Cmd
	in        io.WriteCloser
	out       *bufio.Reader
	Queries   int
	Time      time.Duration
	Errors    []string
	Log       io.Writer // optional transcript
	TimeoutMs int
	declared  []map[string]bool
	depth     int
	curTimeout int
}

func solverArgv(name string, timeoutMs int) []string {
	switch name {
	case "z3-new":
		return []string{"z3-new", "-in", fmt.Sprintf("-t:%d", timeoutMs)}
	case "z3":
		return []string{"z3", "-in", fmt.Sprintf("-t:%d", timeoutMs)}
	case "cvc5":
		return []string{"cvc5", "--incremental", "--lang=smt2", fmt.Sprintf("--tlimit-per=%d", timeoutMs), "--produce-models"}
	}
	return []string{name}
}

func NewSolver(name string, timeoutMs int) (*Solver, error) {
	argv := solverArgv(name, timeoutMs)
	cmd := exec.Command(argv[0], argv[1:]...)
	in, err := cmd.StdinPipe()
	if err != nil {
		return nil, err
	}
	outp, err := cmd.StdoutPipe()
	if err != nil {
		return nil, err
	}
	cmd.Stderr = os.Stderr
	if err := cmd.Start(); err != nil {
		return nil, err
	}
	s := &Solver{Name: name, cmd: cmd, in: in, out: bufio.NewReaderSize(outp, 1<<20), TimeoutMs: timeoutMs}
	s.declared = []map[string]bool{{}}
	s.send("(set-option :print-success false)")
	s.send("(set-option :produce-models true)")
	s.send("(set-logic ALL)")
	return s, nil
}

func (s *Solver) Close() {
	if s.cmd != nil {
		s.in.Close()
		s.cmd.Process.Kill()
		s.cmd.Wait()
		s.cmd = nil
	}
}

func (s *Solver) send(line string) {
	if s.Log != nil {
		fmt.Fprintln(s.Log, line)
	}
	io.WriteString(s.in, line)
	io.WriteString(s.in, "\n")
}

func (s *Solver) Push() {
	s.send("(push 1)")
	s.declared = append(s.declared, map[string]bool{})
	s.depth++
}

func (s *Solver) Pop() {
	s.send("(pop 1)")
	s.declared = s.declared[:len(s.declared)-1]
	s.depth--
}

func (s *Solver) Depth() int { return s.depth }

func (s *Solver) isDeclared(n string) bool {
	for _, m := range s.declared {
		if m[n] {
			return true
		}
	}
	return false
}

func (s *Solver) declareVars(t *Term) {
	seen := map[*Term]bool{}
	var walk func(*Term)
	walk = func(x *Term) {
		if seen[x] {
			return
		}
		seen[x] = true
		if x.Op == "v" {
			if !s.isDeclared(x.Name) {
				s.send(fmt.Sprintf("(declare-const %s %s)", x.Name, x.Sort))
				s.declared[len(s.declared)-1][x.Name] = true
				if x.Sort == SInt {
					if x.Lo != nil {
						s.send(fmt.Sprintf("(assert (>= %s %s))", x.Name, lit(x.Lo)))
					}
					if x.Hi != nil {
						s.send(fmt.Sprintf("(assert (<= %s %s))", x.Name, lit(x.Hi)))
					}
				}
			}
			return
		}
		for _, a := range x.Args {
			walk(a)
		}
	}
	walk(t)
}

func lit(b *big.Int) string {
	if b.Sign() < 0 {
		return "(- " + new(big.Int).Neg(b).String() + ")"
	}
	return b.String()
}

func (s *Solver) Assert(t *Term) {
	if t.IsConst() && t.B {
		return
	}
	s.declareVars(t)
	s.send("(assert " + SMT(t) + ")")
}

func (s *Solver) readLine() string {
	line, err := s.out.ReadString('\n')
	if err != nil {
		return "(error \"solver died: " + err.Error() + "\")"
	}
	return strings.TrimSpace(line)
}

// SetTimeout changes the per-query timeout (ms).
func (s *Solver) SetTimeout(ms int) {
	if ms == s.curTimeout {
		return
	}
	s.curTimeout = ms
	switch s.Name {
	case "cvc5":
		s.send(fmt.Sprintf("(set-option :tlimit-per %d)", ms))
	default:
		s.send(fmt.Sprintf("(set-option :timeout %d)", ms))
	}
}

func (s *Solver) Check() Result {
	t0 := time.Now()
	s.send("(check-sat)")
	s.Queries++
	var r Result = Unknown
	nerr := len(s.Errors)
	for {
		line := s.readLine()
		if s.Log != nil {
			fmt.Fprintln(s.Log, "; ->", line)
		}
		if line == "" {
			continue
		}
		switch {
		case line == "sat":
			r = Sat
		case line == "unsat":
			r = Unsat
		case line == "unknown" || line == "timeout":
			r = Unknown
		case strings.HasPrefix(line, "(error"):
			s.Errors = append(s.Errors, line)
			if strings.Contains(line, "solver died") {
				s.Time += time.Since(t0)
				return Unknown
			}
			continue // z3 may still answer after an error; but treat as unknown
		default:
			continue
		}
		break
	}
	s.Time += time.Since(t0)
	if len(s.Errors) > nerr {
		return Unknown
	}
	return r
}

// CheckWith checks satisfiability of the current assertions plus extra.
func (s *Solver) CheckWith(extra *Term) Result {
	if extra.IsConst() {
		if !extra.B {
			return Unsat
		}
	}
	s.Push()
	s.Assert(extra)
	r := s.Check()
	s.Pop()
	return r
}

// Model returns values for the given variables after a Sat answer (call before Pop).
func (s *Solver) Model(vars []*Term) map[string]*big.Int {
	m := map[string]*big.Int{}
	var names []string
	for _, v := range vars {
		if s.isDeclared(v.Name) && (v.Sort == SInt || v.Sort == SBool) {
			names = append(names, v.Name)
		}
	}
	if len(names) == 0 {
		return m
	}
	s.send("(get-value (" + strings.Join(names, " ") + "))")
	// read a balanced s-expression
	var sb strings.Builder
	depth := 0
	started := false
	for {
		line := s.readLine()
		if strings.HasPrefix(line, "(error") {
			s.Errors = append(s.Errors, line)
			return m
		}
		for _, c := range line {
			if c == '(' {
				depth++
				started = true
			} else if c == ')' {
				depth--
			}
		}
		sb.WriteString(line)
		sb.WriteByte(' ')
		if started && depth == 0 {
			break
		}
	}
	toks := tokenize(sb.String())
	// ((name val) (name val) ...)
	pos := 1
	for pos < len(toks)-1 {
		if toks[pos] != "(" {
			pos++
			continue
		}
		name := toks[pos+1]
		pos += 2
		val, np := parseVal(toks, pos)
		pos = np
		if pos < len(toks) && toks[pos] == ")" {
			pos++
		}
		if val != nil {
			m[name] = val
		}
	}
	return m
}

func tokenize(s string) []string {
	var toks []string
	cur := ""
	for _, c := range s {
		switch c {
		case '(', ')':
			if cur != "" {
				toks = append(toks, cur)
				cur = ""
			}
			toks = append(toks, string(c))
		case ' ', '\t', '\n':
			if cur != "" {
				toks = append(toks, cur)
				cur = ""
			}
		default:
			cur += string(c)
		}
	}
	if cur != "" {
		toks = append(toks, cur)
	}
	return toks
}

func parseVal(toks []string, pos int) (*big.Int, int) {
	if pos >= len(toks) {
		return nil, pos
	}
	t := toks[pos]
	if t == "(" {
		// (- N)
		if pos+3 < len(toks) && toks[pos+1] == "-" {
			v, np := parseVal(toks, pos+2)
			if v != nil {
				v = new(big.Int).Neg(v)
			}
			if np < len(toks) && toks[np] == ")" {
				np++
			}
			return v, np
		}
		// skip unknown expr
		d := 0
		for pos < len(toks) {
			if toks[pos] == "(" {
				d++
			} else if toks[pos] == ")" {
				d--
				if d == 0 {
					pos++
					break
				}
			}
			pos++
		}
		return nil, pos
	}
	if t == "true" {
		return big.NewInt(1), pos + 1
	}
	if t == "false" {
		return big.NewInt(0), pos + 1
	}
	v, ok := new(big.Int).SetString(t, 10)
	if !ok {
		return nil, pos + 1
	}
	return v, pos + 1
}

// EvalInt returns the value of an Int term in the current model (after Sat).
func (s *Solver) EvalInt(t *Term) *big.Int {
	s.declareVars(t)
	s.send("(get-value (" + SMT(t) + "))")
	var sb strings.Builder
	depth := 0
	started := false
	for {
		line := s.readLine()
		if strings.HasPrefix(line, "(error") {
			s.Errors = append(s.Errors, line)
			return nil
		}
		for _, c := range line {
			if c == '(' {
				depth++
				started = true
			} else if c == ')' {
				depth--
			}
		}
		sb.WriteString(line)
		sb.WriteByte(' ')
		if started && depth == 0 {
			break
		}
	}
	toks := tokenize(sb.String())
	// ((expr val)) : the value is the last balanced item before the final two ")"
	// find value by scanning from the end
	end := len(toks) - 2 // index after value
	if end < 1 {
		return nil
	}
	// value is either a single token or (- N)
	if toks[end-1] == ")" {
		// (- N)
		if end-4 >= 0 && toks[end-4] == "(" && toks[end-3] == "-" {
			v, ok := new(big.Int).SetString(toks[end-2], 10)
			if ok {
				return v.Neg(v)
			}
		}
		return nil
	}
	v, ok := new(big.Int).SetString(toks[end-1], 10)
	if !ok {
		if toks[end-1] == "true" {
			return big.NewInt(1)
		}
		if toks[end-1] == "false" {
			return big.NewInt(0)
		}
		return nil
	}
	return v
}
