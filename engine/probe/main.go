package main

import (
	"fmt"
	"os"
	"time"

	"golang.org/x/tools/go/packages"
	"golang.org/x/tools/go/ssa"
	"golang.org/x/tools/go/ssa/ssautil"
)

func main() {
	t0 := time.Now()
	cfg := &packages.Config{Mode: packages.LoadAllSyntax, Dir: "/repo", Env: append(os.Environ(), "GOFLAGS=-mod=mod", "GOPROXY=off", "GOSUMDB=off"),
		Overlay: map[string][]byte{
			"/repo/node/conversions/zz_verif_h.go": []byte("package conversions\nimport \"github.com/pegnet/pegnetd/zzverif/vrt\"\nfunc VerifX() { vrt.Assert(\"a\", true) }\n"),
			"/repo/zzverif/vrt/vrt.go":           []byte("package vrt\nfunc Assert(id string, c bool) {}\n"),
		}}
	pkgs, err := packages.Load(cfg, os.Args[1:]...)
	if err != nil {
		panic(err)
	}
	if packages.PrintErrors(pkgs) > 0 {
		os.Exit(1)
	}
	fmt.Println("loaded", len(pkgs), time.Since(t0))
	prog, spkgs := ssautil.AllPackages(pkgs, ssa.InstantiateGenerics)
	prog.Build()
	fmt.Println("built", len(spkgs), time.Since(t0))
	for _, p := range spkgs {
		if p != nil && p.Func("VerifX") != nil {
			p.Func("VerifX").WriteTo(os.Stdout)
		}
	}
}
